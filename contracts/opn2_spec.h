/* Pure C specification macros for the OPN2 register-level contracts (no CBMC constructs): shared by the contract
 * header and the native replay, so the replay judges the real function with the predicates the proof used. */
#ifndef OPN2_SPEC_H
#define OPN2_SPEC_H
/* which operators are carriers (output directly) per algorithm: YM2612 manual; slot order OP1,OP3,OP2,OP4 as in the register file */
#define SPEC_IS_CARRIER(alg, op) ((op) == 3 || ((alg) >= 4 && (op) == 2) || ((alg) >= 5 && (op) == 1) || ((alg) == 7))
#define SPEC_CH_CHIP(c) ((c) / 6)
#define SPEC_CH_PORT(c) ((((c) % 6) < 3) ? 0 : 1)
#define SPEC_CH_CC(c)   (((c) % 6) % 3)

/* ghost copies of the instrument levels, so that a counterexample names them */
extern uint8_t in_op_level[4]; extern uint8_t in_alg;

#define SPEC_TL_WRITE_OK(k, c) \
    (g_tap[k].chip == SPEC_CH_CHIP(c) && g_tap[k].port == SPEC_CH_PORT(c) && !g_tap[k].is_pan && \
     g_tap[k].addr == 0x40 + SPEC_CH_CC(c) + 4 * (k) && g_tap[k].val <= 127)
#define SPEC_SILENT(v, cv, ce) ((cv) == 0 || (ce) == 0 || g_synth.m_masterVolume == 0)   /* the statement names volume, expression, master volume - not velocity */
#define SPEC_CARRIER_SILENCED(k) (!SPEC_IS_CARRIER(in_alg, k) || g_tap[k].val == 127)
#define SPEC_MOD_UNTOUCHED(k) (SPEC_IS_CARRIER(in_alg, k) || g_tap[k].val == (in_op_level[k] & 127))   /* the instrument's own 7-bit level */

#define SPEC_TOUCHNOTE_POST_RANGE(c) (g_tap_n == 4 && SPEC_TL_WRITE_OK(0, c) && SPEC_TL_WRITE_OK(1, c) && SPEC_TL_WRITE_OK(2, c) && SPEC_TL_WRITE_OK(3, c))
#define SPEC_TOUCHNOTE_POST_SILENT(cv, ce) (!SPEC_SILENT(0, cv, ce) || (SPEC_CARRIER_SILENCED(0) && SPEC_CARRIER_SILENCED(1) && SPEC_CARRIER_SILENCED(2) && SPEC_CARRIER_SILENCED(3)))
#define SPEC_TOUCHNOTE_POST_MODS(br) (!(!g_synth.m_scaleModulators && (br) == 127) || (SPEC_MOD_UNTOUCHED(0) && SPEC_MOD_UNTOUCHED(1) && SPEC_MOD_UNTOUCHED(2) && SPEC_MOD_UNTOUCHED(3)))
#endif
