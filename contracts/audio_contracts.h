/* Contracts for the sample conversion helpers, CopySamples* and SendStereoAudio (C13), written from the property
 * statement ("S16 saturated; U16 = S16+32768; S8/U8, S24/U24, S32/U32 scaled and offset; float = value/32767"). */
#ifndef AUDIO_CONTRACTS_H
#define AUDIO_CONTRACTS_H
#include "verif_types.h"
#define min(a, b) ((a) < (b) ? (a) : (b))   /* std::min of the original (rule R1 strips std::) */

#define SPEC_SAT16(x) ((x) < -32768 ? -32768 : ((x) > 32767 ? 32767 : (x)))
/* signed division by 256 truncating towards zero, written without '/' (dividers stall SAT) */
#define SPEC_DIV256(v) ((v) >= 0 ? ((v) >> 8) : -((-(v)) >> 8))

int32_t opn2_cvtS16(int32_t x) __CPROVER_requires(1) __CPROVER_assigns() __CPROVER_ensures(__CPROVER_return_value == SPEC_SAT16(x));
int32_t opn2_cvtU16(int32_t x) __CPROVER_requires(1) __CPROVER_assigns() __CPROVER_ensures(__CPROVER_return_value == SPEC_SAT16(x) + 32768);
int32_t opn2_cvtS8(int32_t x)  __CPROVER_requires(1) __CPROVER_assigns() __CPROVER_ensures(__CPROVER_return_value == SPEC_DIV256(SPEC_SAT16(x)) && __CPROVER_return_value >= -128 && __CPROVER_return_value <= 127);
int32_t opn2_cvtU8(int32_t x)  __CPROVER_requires(1) __CPROVER_assigns() __CPROVER_ensures(__CPROVER_return_value == SPEC_DIV256(SPEC_SAT16(x)) + 128 && __CPROVER_return_value >= 0 && __CPROVER_return_value <= 255);
int32_t opn2_cvtS24(int32_t x) __CPROVER_requires(1) __CPROVER_assigns() __CPROVER_ensures(__CPROVER_return_value == SPEC_SAT16(x) * 256);
int32_t opn2_cvtU24(int32_t x) __CPROVER_requires(1) __CPROVER_assigns() __CPROVER_ensures(__CPROVER_return_value == SPEC_SAT16(x) * 256 + 8388608);
int32_t opn2_cvtS32(int32_t x) __CPROVER_requires(1) __CPROVER_assigns() __CPROVER_ensures(__CPROVER_return_value == SPEC_SAT16(x) * 65536);
/* U32: the S32 value offset by 2^31, as a 32-bit pattern */
int32_t opn2_cvtU32(int32_t x) __CPROVER_requires(1) __CPROVER_assigns() __CPROVER_ensures((uint32_t)__CPROVER_return_value == (uint32_t)(SPEC_SAT16(x) * 65536) + 2147483648u);
float  opn2_cvtReal_float(int32_t x)  __CPROVER_requires(1) __CPROVER_assigns() __CPROVER_ensures(__CPROVER_return_value == (float)x * (1.0f / 32767.0f));
double opn2_cvtReal_double(int32_t x) __CPROVER_requires(1) __CPROVER_assigns() __CPROVER_ensures(__CPROVER_return_value == (double)x * (1.0 / 32767.0));

/* ---- CopySamples*: ghost expectations set by the SendStereoAudio harness (checked at the replaced call sites) ---- */
extern size_t g_exp_frames; extern OPN2_UInt8 *g_exp_left, *g_exp_right; extern const int32_t *g_exp_src; extern unsigned g_exp_stride;
extern int g_copy_calls; extern unsigned g_copy_dst_size; extern int g_copy_raw; extern int32_t (*g_copy_cvt)(int32_t);
#define SPEC_COPY_ARGS_OK (frameCount == g_exp_frames && dstLeft == g_exp_left && dstRight == g_exp_right && src == g_exp_src && sampleOffset == g_exp_stride)
#define COPY_CVT_0 __CPROVER_ensures(g_copy_cvt == (int32_t (*)(int32_t))transform)
#define COPY_CVT_1
#define COPY_CONTRACT(name, dsz, raw) \
    __CPROVER_requires(SPEC_COPY_ARGS_OK) \
    __CPROVER_assigns(g_copy_calls, g_copy_dst_size, g_copy_raw, g_copy_cvt) \
    __CPROVER_ensures(g_copy_calls == __CPROVER_old(g_copy_calls) + 1 && g_copy_dst_size == (dsz) && g_copy_raw == (raw)) \
    COPY_CVT_##raw

#if defined(WITH_GENERATE) || defined(WITH_PLAY)
#ifndef GEN_MAX_CHIPS
#define SKIP_BOUND 4294967296L
#define GEN_MAX_CHIPS 4   /* the property's quantifier: 1..4 chips; the chip loop is unwound GEN_MAX_CHIPS+1 times with unwinding assertions */
#endif
/* ---- opn2_generateFormat (partial correctness; chips, SendStereoAudio and TickIterators by contract) ------------------- */
#include "env_play.h"
typedef OPNMIDIplay MidiPlayer;
#define GET_MIDI_PLAYER(device) (&g_play)
#define assert(x) __CPROVER_assert((x), "assert() of the original")
extern unsigned g_gen_calls, g_send_calls, g_tick_calls; extern ssize_t g_sent_frames; extern struct OPN2_MIDIPlayer g_device; extern int g_send_fails;
/* emulator cores (rule R8): fill/mix at most 512 stereo frames into the 1024-element mix buffer of the player */
void chip_generate32(size_t card, int32_t *buf, size_t frames)
__CPROVER_requires(card < g_synth.m_numChips && buf == g_play.m_outBuf && frames <= 512) __CPROVER_assigns(g_gen_calls, __CPROVER_object_upto(g_play.m_outBuf, sizeof(g_play.m_outBuf))) __CPROVER_ensures(g_gen_calls == __CPROVER_old(g_gen_calls) + 1);
void chip_generateAndMix32(size_t card, int32_t *buf, size_t frames)
__CPROVER_requires(card < g_synth.m_numChips && buf == g_play.m_outBuf && frames <= 512) __CPROVER_assigns(g_gen_calls, __CPROVER_object_upto(g_play.m_outBuf, sizeof(g_play.m_outBuf))) __CPROVER_ensures(g_gen_calls == __CPROVER_old(g_gen_calls) + 1);
/* SendStereoAudio by its contract: the REQUIRES is exactly the caller-side assumption of the send_stereo_audio group */
int SendStereoAudio_c(int samples_requested, ssize_t in_size, int32_t *_in, ssize_t out_pos, OPN2_UInt8 *left, OPN2_UInt8 *right, const OPNMIDI_AudioFormat *format)
__CPROVER_requires(samples_requested >= 0 && samples_requested % 2 == 0 && out_pos >= 0 && out_pos % 2 == 0 && out_pos <= samples_requested && in_size >= 0 && in_size <= 512 && _in == g_play.m_outBuf)
/* CHECKED at the call: every period is stored directly behind the previous one (ghost g_sent_frames = frames stored so far in this request) */
__CPROVER_requires(g_sent_frames >= 0 && g_sent_frames <= 1073741823 && out_pos == 2 * g_sent_frames)
__CPROVER_assigns(g_send_calls, g_sent_frames) __CPROVER_ensures(g_sent_frames == __CPROVER_old(g_sent_frames) + in_size) __CPROVER_ensures(g_send_calls == __CPROVER_old(g_send_calls) + 1 && (__CPROVER_return_value == 0 || __CPROVER_return_value == -1) && (__CPROVER_return_value == -1) == (g_send_fails != 0));
void TickIterators(double s) __CPROVER_requires(s >= 0.0 && s <= g_play.m_setup.maxdelay) __CPROVER_assigns(g_tick_calls) __CPROVER_ensures(1);

#ifdef WITH_GENERATE
int opn2_generateFormat(struct OPN2_MIDIPlayer *device, int sampleCount, OPN2_UInt8 *out_left, OPN2_UInt8 *out_right, const OPNMIDI_AudioFormat *format)
__CPROVER_requires((device == NULL || device == &g_device) && g_play.m_synth == &g_synth && g_synth.m_numChips >= 1 && g_synth.m_numChips <= GEN_MAX_CHIPS)
/* setup invariant: positive finite rates and delays, the carry is a fraction */
__CPROVER_requires(g_play.m_setup.PCM_RATE >= 1 && g_play.m_setup.PCM_RATE <= 1000000 && g_play.m_setup.maxdelay > 0.0 && g_play.m_setup.maxdelay <= 1000.0 &&
                   g_play.m_setup.carry >= 0.0 && g_play.m_setup.carry < 1.0 && g_sent_frames == 0)
__CPROVER_assigns(g_play.m_setup.carry, __CPROVER_object_upto(g_play.m_outBuf, sizeof(g_play.m_outBuf)), g_gen_calls, g_send_calls, g_tick_calls, g_sent_frames)
/* IF the call returns: 0 for a negative count, a NULL device or an unsupported format; otherwise the request rounded down to even */
__CPROVER_ensures(__CPROVER_return_value == 0 || (device != NULL && !g_send_fails && __CPROVER_return_value == sampleCount - sampleCount % 2 && sampleCount >= 2))
__CPROVER_ensures(device != NULL && sampleCount >= 0 && !g_send_fails ==> __CPROVER_return_value == sampleCount - sampleCount % 2)
__CPROVER_ensures(sampleCount < 0 || device == NULL ==> (__CPROVER_return_value == 0 && g_send_calls == __CPROVER_old(g_send_calls)))
__CPROVER_ensures(g_play.m_setup.carry >= 0.0 && g_play.m_setup.carry < 1.0)
/* exactly the reported number of samples was stored (unless the format was refused, where 0 is reported) */
__CPROVER_ensures(!g_send_fails ==> (g_sent_frames >= 0 && g_sent_frames <= 1073741823 && __CPROVER_return_value == 2 * g_sent_frames));
#endif
#ifdef WITH_PLAY
/* ---- opn2_playFormat (partial correctness; sequencer by contract) ------------------------------------------------------- */
extern int g_atend_seen;
/* ASSUMED contract of BW_MidiSequencer::positionAtEnd(): any answer; the ghost records that "end of song" was reported */
bool seq_positionAtEnd(void) __CPROVER_requires(1) __CPROVER_assigns(g_atend_seen)
__CPROVER_ensures((__CPROVER_return_value ==> g_atend_seen == 1) && (!__CPROVER_return_value ==> g_atend_seen == __CPROVER_old(g_atend_seen)));
/* ASSUMED contract of OPNMIDIplay::Tick(): the next delay is a finite non-negative number of seconds (BW_MidiSequencer::Tick
 * clamps negative waits to 0.0); CHECKED at the call: the library passes a time step inside [0, maxdelay] */
double player_Tick(double s, double granularity) __CPROVER_requires(s >= 0.0 && s <= g_play.m_setup.maxdelay) __CPROVER_assigns(g_tick_calls)
__CPROVER_ensures(__CPROVER_return_value >= 0.0 && __CPROVER_return_value <= 1.0e9);

int opn2_playFormat(struct OPN2_MIDIPlayer *device, int sampleCount, OPN2_UInt8 *out_left, OPN2_UInt8 *out_right, const OPNMIDI_AudioFormat *format)
__CPROVER_requires((device == NULL || device == &g_device) && g_play.m_synth == &g_synth && g_synth.m_numChips >= 1 && g_synth.m_numChips <= GEN_MAX_CHIPS)
/* setup invariant: positive finite rates and delays, the carry is a fraction, the pending delay is finite and not negative */
__CPROVER_requires(g_play.m_setup.PCM_RATE >= 1 && g_play.m_setup.PCM_RATE <= 1000000 && g_play.m_setup.maxdelay > 0.0 && g_play.m_setup.maxdelay <= 1000.0 &&
                   g_play.m_setup.carry >= 0.0 && g_play.m_setup.carry < 1.0 && g_play.m_setup.delay >= 0.0 && g_play.m_setup.delay <= 1.0e9 &&
                   g_play.m_setup.tick_skip_samples_delay >= -SKIP_BOUND && g_play.m_setup.tick_skip_samples_delay <= SKIP_BOUND && g_atend_seen == 0 && g_sent_frames == 0)
__CPROVER_assigns(g_play.m_setup.carry, g_play.m_setup.delay, g_play.m_setup.tick_skip_samples_delay, __CPROVER_object_upto(g_play.m_outBuf, sizeof(g_play.m_outBuf)), g_gen_calls, g_send_calls, g_tick_calls, g_atend_seen, g_sent_frames)
/* IF the call returns: an even count between 0 and the request rounded down to even ... */
__CPROVER_ensures(__CPROVER_return_value >= 0 && __CPROVER_return_value % 2 == 0 && (sampleCount < 0 ? __CPROVER_return_value == 0 : __CPROVER_return_value <= sampleCount - sampleCount % 2))
/* ... short only when the format was refused (0) or the sequencer reported the end of the song */
__CPROVER_ensures(device != NULL && sampleCount >= 0 && !g_send_fails && !g_atend_seen ==> __CPROVER_return_value == sampleCount - sampleCount % 2)
__CPROVER_ensures(g_send_fails && g_send_calls != __CPROVER_old(g_send_calls) ==> __CPROVER_return_value == 0)
__CPROVER_ensures(sampleCount < 0 || device == NULL ==> (__CPROVER_return_value == 0 && g_send_calls == __CPROVER_old(g_send_calls)))
__CPROVER_ensures(g_play.m_setup.carry >= 0.0 && g_play.m_setup.carry < 1.0 && g_play.m_setup.delay >= 0.0 && g_play.m_setup.delay <= 1.0e9 &&
                  g_play.m_setup.tick_skip_samples_delay >= -SKIP_BOUND && g_play.m_setup.tick_skip_samples_delay <= SKIP_BOUND)
/* exactly the reported number of samples was stored (unless the format was refused, where 0 is reported) */
__CPROVER_ensures(!g_send_fails ==> (g_sent_frames >= 0 && g_sent_frames <= 1073741823 && __CPROVER_return_value == 2 * g_sent_frames));
#endif
#endif
#endif
