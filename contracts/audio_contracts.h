/* Contracts for the sample conversion helpers, CopySamples* and SendStereoAudio (C13), written from the property
 * statement ("S16 saturated; U16 = S16+32768; S8/U8, S24/U24, S32/U32 scaled and offset; float = value/32767"). */
#ifndef AUDIO_CONTRACTS_H
#define AUDIO_CONTRACTS_H
#include "verif_types.h"
#define min(a, b) ((a) < (b) ? (a) : (b))   /* std::min of the original (rule R1 strips std::) */

#define SPEC_SAT16(x) ((x) < -32768 ? -32768 : ((x) > 32767 ? 32767 : (x)))
/* signed division by 256 truncating towards zero, written without '/' (dividers stall SAT) */
#define SPEC_DIV256(v) ((v) >= 0 ? ((v) >> 8) : -((-(v)) >> 8))

int32_t opn2_cvtS16(int32_t x) __CPROVER_requires(1) __CPROVER_assigns() __CPROVER_ensures(__CPROVER_return_value == SPEC_SAT16(x));
int32_t opn2_cvtU16(int32_t x) __CPROVER_requires(1) __CPROVER_assigns() __CPROVER_ensures(__CPROVER_return_value == SPEC_SAT16(x) + 32768);
int32_t opn2_cvtS8(int32_t x)  __CPROVER_requires(1) __CPROVER_assigns() __CPROVER_ensures(__CPROVER_return_value == SPEC_DIV256(SPEC_SAT16(x)) && __CPROVER_return_value >= -128 && __CPROVER_return_value <= 127);
int32_t opn2_cvtU8(int32_t x)  __CPROVER_requires(1) __CPROVER_assigns() __CPROVER_ensures(__CPROVER_return_value == SPEC_DIV256(SPEC_SAT16(x)) + 128 && __CPROVER_return_value >= 0 && __CPROVER_return_value <= 255);
int32_t opn2_cvtS24(int32_t x) __CPROVER_requires(1) __CPROVER_assigns() __CPROVER_ensures(__CPROVER_return_value == SPEC_SAT16(x) * 256);
int32_t opn2_cvtU24(int32_t x) __CPROVER_requires(1) __CPROVER_assigns() __CPROVER_ensures(__CPROVER_return_value == SPEC_SAT16(x) * 256 + 8388608);
int32_t opn2_cvtS32(int32_t x) __CPROVER_requires(1) __CPROVER_assigns() __CPROVER_ensures(__CPROVER_return_value == SPEC_SAT16(x) * 65536);
/* U32: the S32 value offset by 2^31, as a 32-bit pattern */
int32_t opn2_cvtU32(int32_t x) __CPROVER_requires(1) __CPROVER_assigns() __CPROVER_ensures((uint32_t)__CPROVER_return_value == (uint32_t)(SPEC_SAT16(x) * 65536) + 2147483648u);
float  opn2_cvtReal_float(int32_t x)  __CPROVER_requires(1) __CPROVER_assigns() __CPROVER_ensures(__CPROVER_return_value == (float)x * (1.0f / 32767.0f));
double opn2_cvtReal_double(int32_t x) __CPROVER_requires(1) __CPROVER_assigns() __CPROVER_ensures(__CPROVER_return_value == (double)x * (1.0 / 32767.0));

/* ---- CopySamples*: ghost expectations set by the SendStereoAudio harness (checked at the replaced call sites) ---- */
extern size_t g_exp_frames; extern OPN2_UInt8 *g_exp_left, *g_exp_right; extern const int32_t *g_exp_src; extern unsigned g_exp_stride;
extern int g_copy_calls; extern unsigned g_copy_dst_size; extern int g_copy_raw; extern int32_t (*g_copy_cvt)(int32_t);
#define SPEC_COPY_ARGS_OK (frameCount == g_exp_frames && dstLeft == g_exp_left && dstRight == g_exp_right && src == g_exp_src && sampleOffset == g_exp_stride)
#define COPY_CVT_0 __CPROVER_ensures(g_copy_cvt == (int32_t (*)(int32_t))transform)
#define COPY_CVT_1
#define COPY_CONTRACT(name, dsz, raw) \
    __CPROVER_requires(SPEC_COPY_ARGS_OK) \
    __CPROVER_assigns(g_copy_calls, g_copy_dst_size, g_copy_raw, g_copy_cvt) \
    __CPROVER_ensures(g_copy_calls == __CPROVER_old(g_copy_calls) + 1 && g_copy_dst_size == (dsz) && g_copy_raw == (raw)) \
    COPY_CVT_##raw
#endif
