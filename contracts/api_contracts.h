/* Contracts for C API setters (C18): a setter that reports failure leaves every setting as it was and leaves an error
 * text; a setter that reports success makes the stored setting the value given. */
#ifndef API_CONTRACTS_H
#define API_CONTRACTS_H
#include "env_play.h"
typedef OPNMIDIplay MidiPlayer;
#define GET_MIDI_PLAYER(device) (&g_play)          /* the single player object of the environment */
#define assert(x) __CPROVER_assert((x), "assert() of the original")
#define OPN_MAX_CHIPS 100
#define OPN_MAX_CHIPS_STR "100"
extern unsigned g_error_texts, g_partial_resets, g_lfo_commits; extern int g_locked;

void setErrorString(const char *err)
__CPROVER_requires(err != NULL) __CPROVER_assigns(g_error_texts) __CPROVER_ensures(g_error_texts == __CPROVER_old(g_error_texts) + 1);
/* partialReset(): rebuilds the chips from m_setup (ASSUMED; counted) */
void partialReset(void)
__CPROVER_requires(1) __CPROVER_assigns(g_partial_resets, g_synth) __CPROVER_ensures(g_partial_resets == __CPROVER_old(g_partial_resets) + 1);
bool OPN2_setupLocked(struct OPN2 *self)
__CPROVER_requires(self == &g_synth) __CPROVER_assigns() __CPROVER_ensures(__CPROVER_return_value == (g_locked != 0));   /* ghost: locked music modes */
/* availability of an emulator id (ASSUMED from opn2_isEmulatorAvailable after fix 46ab746): only ids inside the enum */
bool opn2_isEmulatorAvailable(int emulator)
__CPROVER_requires(1) __CPROVER_assigns() __CPROVER_ensures(__CPROVER_return_value ==> (emulator >= 0 && emulator < OPNMIDI_EMU_end));

#define SPEC_SETUP_SAME(f) (g_play.m_setup.f == __CPROVER_old(g_play.m_setup.f))
#define SPEC_ALL_SETTINGS_SAME \
    (SPEC_SETUP_SAME(emulator) && SPEC_SETUP_SAME(runAtPcmRate) && SPEC_SETUP_SAME(OpnBank) && SPEC_SETUP_SAME(numChips) && \
     SPEC_SETUP_SAME(LogarithmicVolumes) && SPEC_SETUP_SAME(VolumeModel) && SPEC_SETUP_SAME(lfoEnable) && SPEC_SETUP_SAME(lfoFrequency) && \
     SPEC_SETUP_SAME(chipType) && SPEC_SETUP_SAME(ScaleModulators) && SPEC_SETUP_SAME(fullRangeBrightnessCC74) && SPEC_SETUP_SAME(enableAutoArpeggio) && \
     SPEC_SETUP_SAME(PCM_RATE) && g_play.m_sysExDeviceId == __CPROVER_old(g_play.m_sysExDeviceId) && g_synth.m_numChips == __CPROVER_old(g_synth.m_numChips) && \
     g_partial_resets == __CPROVER_old(g_partial_resets))
#define API_REQUIRES __CPROVER_requires((device == NULL || device == &g_device) && g_play.m_synth == &g_synth)
#define API_FRAME __CPROVER_assigns(g_play.m_setup, g_play.m_sysExDeviceId, g_synth, g_error_texts, g_partial_resets)
extern struct OPN2_MIDIPlayer g_device;

int opn2_setNumChips(struct OPN2_MIDIPlayer *device, int numChips)
API_REQUIRES API_FRAME
__CPROVER_ensures(__CPROVER_return_value == 0 || __CPROVER_return_value == -1 || __CPROVER_return_value == -2)
__CPROVER_ensures(__CPROVER_return_value < 0 ==> SPEC_ALL_SETTINGS_SAME)
__CPROVER_ensures((__CPROVER_return_value == 0) == (device != NULL && numChips >= 1 && numChips <= 100))
__CPROVER_ensures(__CPROVER_return_value == -1 ==> g_error_texts == __CPROVER_old(g_error_texts) + 1)
__CPROVER_ensures(__CPROVER_return_value == 0 ==> g_play.m_setup.numChips == (unsigned)numChips);

int opn2_switchEmulator(struct OPN2_MIDIPlayer *device, int emulator)
API_REQUIRES API_FRAME
__CPROVER_ensures(__CPROVER_return_value == 0 || __CPROVER_return_value == -1)
__CPROVER_ensures(__CPROVER_return_value < 0 ==> SPEC_ALL_SETTINGS_SAME)
__CPROVER_ensures(__CPROVER_return_value < 0 && device != NULL ==> g_error_texts == __CPROVER_old(g_error_texts) + 1)
__CPROVER_ensures(__CPROVER_return_value == 0 ==> (g_play.m_setup.emulator == emulator && emulator >= 0 && emulator < OPNMIDI_EMU_end && g_partial_resets == __CPROVER_old(g_partial_resets) + 1));

int opn2_setDeviceIdentifier(struct OPN2_MIDIPlayer *device, unsigned id)
API_REQUIRES API_FRAME
__CPROVER_ensures((__CPROVER_return_value == 0) == (device != NULL && id <= 15))
__CPROVER_ensures(__CPROVER_return_value != 0 ==> SPEC_ALL_SETTINGS_SAME)
__CPROVER_ensures(__CPROVER_return_value == 0 ==> g_play.m_sysExDeviceId == id);

/* volume model: the explicit models map one-to-one, AUTO means the loaded bank's own model ("the bank default for -1/auto") */
#define SPEC_MODEL_TO_SCALE(m) ((m) == OPNMIDI_VolumeModel_Generic ? VOLUME_Generic : (m) == OPNMIDI_VolumeModel_NativeOPN2 ? VOLUME_NATIVE : \
                                (m) == OPNMIDI_VolumeModel_DMX ? VOLUME_DMX : (m) == OPNMIDI_VolumeModel_APOGEE ? VOLUME_APOGEE : VOLUME_9X)

void opn2_setVolumeRangeModel(struct OPN2_MIDIPlayer *device, int volumeModel)
API_REQUIRES
__CPROVER_requires(g_synth.m_insBankSetup.volumeModel >= VOLUME_Generic && g_synth.m_insBankSetup.volumeModel <= VOLUME_9X)
__CPROVER_assigns(g_play.m_setup.VolumeModel, g_synth.m_volumeScale)
__CPROVER_ensures(device == NULL ==> (g_play.m_setup.VolumeModel == __CPROVER_old(g_play.m_setup.VolumeModel) && g_synth.m_volumeScale == __CPROVER_old(g_synth.m_volumeScale)))
__CPROVER_ensures(device != NULL ==> g_play.m_setup.VolumeModel == volumeModel)
__CPROVER_ensures(device != NULL && !g_locked && volumeModel == OPNMIDI_VolumeModel_AUTO ==> (int)g_synth.m_volumeScale == g_synth.m_insBankSetup.volumeModel)
__CPROVER_ensures(device != NULL && !g_locked && volumeModel >= OPNMIDI_VolumeModel_Generic && volumeModel <= OPNMIDI_VolumeModel_9X ==> g_synth.m_volumeScale == SPEC_MODEL_TO_SCALE(volumeModel))
__CPROVER_ensures(device != NULL && g_locked ==> g_synth.m_volumeScale == __CPROVER_old(g_synth.m_volumeScale));

/* chip register refresh after an LFO change (ASSUMED: writes chip registers only) */
void commitLFOSetup(void) __CPROVER_requires(1) __CPROVER_assigns(g_lfo_commits) __CPROVER_ensures(g_lfo_commits == __CPROVER_old(g_lfo_commits) + 1);

/* ---- OPNMIDIplay::applySetup, range from the signature to the chip rebuild `synth.reset(...)` (rule R12): every live
 *      synth setting is the documented function of the stored setup and the loaded bank's own values; the stored setup,
 *      the hooks and the SysEx device id are not touched ---- */
typedef struct { int chipType; bool reached; } apply_result;
extern apply_result g_apply;
void applySetup_prefix(void)
__CPROVER_requires(g_play.m_synth == &g_synth && g_synth.m_insBankSetup.volumeModel >= VOLUME_Generic && g_synth.m_insBankSetup.volumeModel <= VOLUME_9X)
__CPROVER_assigns(g_synth.m_musicMode, g_synth.m_runAtPcmRate, g_synth.m_scaleModulators, g_synth.m_volumeScale, g_synth.m_numChips, g_synth.m_lfoEnable, g_synth.m_lfoFrequency,
                  g_play.m_setup.tick_skip_samples_delay, g_apply)
__CPROVER_ensures(g_apply.reached && g_synth.m_musicMode == MODE_MIDI && g_play.m_setup.tick_skip_samples_delay == 0)
__CPROVER_ensures(g_synth.m_runAtPcmRate == g_play.m_setup.runAtPcmRate && g_synth.m_scaleModulators == (g_play.m_setup.ScaleModulators != 0) && g_synth.m_numChips == g_play.m_setup.numChips)
__CPROVER_ensures(g_synth.m_lfoEnable == (g_play.m_setup.lfoEnable < 0 ? (g_synth.m_insBankSetup.lfoEnable != 0) : (g_play.m_setup.lfoEnable != 0)))
__CPROVER_ensures(g_synth.m_lfoFrequency == (g_play.m_setup.lfoFrequency < 0 ? (uint8_t)g_synth.m_insBankSetup.lfoFrequency : (uint8_t)g_play.m_setup.lfoFrequency))
__CPROVER_ensures(g_apply.chipType == (g_play.m_setup.chipType < 0 ? g_synth.m_insBankSetup.chipType : g_play.m_setup.chipType))
/* volume model: AUTO = the bank's own; deprecated logarithmic flag = native; explicit models one-to-one */
__CPROVER_ensures(g_play.m_setup.VolumeModel == OPNMIDI_VolumeModel_AUTO ==> (int)g_synth.m_volumeScale == g_synth.m_insBankSetup.volumeModel)
__CPROVER_ensures(g_play.m_setup.VolumeModel != OPNMIDI_VolumeModel_AUTO && g_play.m_setup.LogarithmicVolumes != 0 ==> g_synth.m_volumeScale == VOLUME_NATIVE)
__CPROVER_ensures(g_play.m_setup.LogarithmicVolumes == 0 && g_play.m_setup.VolumeModel >= OPNMIDI_VolumeModel_Generic && g_play.m_setup.VolumeModel <= OPNMIDI_VolumeModel_9X ==>
                  g_synth.m_volumeScale == SPEC_MODEL_TO_SCALE(g_play.m_setup.VolumeModel));
#endif
