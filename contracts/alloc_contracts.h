/* Contracts for the chip-channel choice of a new note (C06): calculateChipChannelGoodness (score classes), the selection
 * loop of realTime_NoteOn (argmax), prepareChipChannelForNewNote on a channel without users (no effect). */
#ifndef ALLOC_CONTRACTS_H
#define ALLOC_CONTRACTS_H
#include "rt_contracts.h"
#include <stdlib.h>
#define ENV_MAX_CH_ALLOC 600    /* 100 chips x 6 channels */

/* Phys::operator== / OpnTimbre operator== of the original: byte-wise comparison of the timbre (opnbank.h macro) */
static bool Phys_eq(const Phys *a, const Phys *b) { return memcmp(&a->ains, &b->ains, sizeof(OpnTimbre)) == 0; }

/* ---- environment: ONE chip channel as a typed window (m_chipChannels = g_chipchan_win - c) whose user list has the
 *      canonical shape: n = 0..3 cells linked in index order and terminated by the list's own end cell (size bound of
 *      the proof; CBMC cannot handle symbolic list shapes) ---- */
extern Phys g_new_ins;
extern OpnChannel g_chipchan_win[1]; extern pl_cell_LocationData g_ucell[3]; extern unsigned g_nusers;
#define SPEC_ENDCELL ((pl_cell_LocationData *)(void *)&g_chipchan_win[0].users.endcell_)
static bool spec_users_shape(void)
{
    const pl_list_LocationData *l = &g_chipchan_win[0].users;
    bool ok = g_nusers <= 3 && l->size_ == g_nusers && l->endcell_.next == NULL && l->first_ == (g_nusers > 0 ? &g_ucell[0] : SPEC_ENDCELL);
    for(unsigned q = 0; q < 3; q++)
        ok = ok && (q >= g_nusers || g_ucell[q].next == (q + 1 < g_nusers ? &g_ucell[q + 1] : SPEC_ENDCELL));
    return ok;
}
/* bounds the statement itself works under: key-off/key-on countdowns come from 16-bit millisecond values
 * (<= 65 535 000 us) and a note is at most 10 minutes old (>= -600 000 000 us); locations are valid */
static bool spec_users_bounds(void)
{
    bool ok = g_chipchan_win[0].koff_time_until_neglible_us >= 0 && g_chipchan_win[0].koff_time_until_neglible_us <= 65535000;
    for(unsigned q = 0; q < 3; q++)
        ok = ok && (q >= g_nusers || (g_ucell[q].value.kon_time_until_neglible_us >= -600000000 && g_ucell[q].value.kon_time_until_neglible_us <= 65535000 &&
                                       g_ucell[q].value.loc.MidCh < ENV_N_MIDI_CHANNELS));
    return ok;
}
#define SPEC_HELD(q) ((q) < g_nusers && g_ucell[q].value.sustained == Sustain_None)
#define SPEC_ANY_HELD (SPEC_HELD(0) || SPEC_HELD(1) || SPEC_HELD(2))
/* score classes, strictly ordered:  key still down  <  single pedal-held note  <  no user */
#define SCORE_IDLE_MIN      (-105535)     /* -(65535 + 40000) */
#define SCORE_PEDAL1_MAX    (-199640)     /* -(500000 - 600000/2) + 360 */
#define SCORE_PEDAL1_MIN    (-598302)     /* -(65535 + 500000 + 65535/2) */
#define SCORE_HELD_MAX      (-3398920)    /* -(4000000 - 600000) + 3*360 */
#define SCORE_MIN           (-13000000)   /* three users, all at their worst */

int64_t calculateChipChannelGoodness(size_t c, const Phys *ins__p)
__CPROVER_requires(g_play.m_synth == &g_synth && g_play.m_chipChannels == g_chipchan_win - c && g_play.m_midiChannels == g_midiChannels_storage &&
                   g_play.m_midiChannels_size == ENV_N_MIDI_CHANNELS && ins__p == &g_new_ins)
__CPROVER_requires(spec_users_shape() && spec_users_bounds())
__CPROVER_assigns()
__CPROVER_ensures(__CPROVER_return_value <= 0 && __CPROVER_return_value >= SCORE_MIN)
__CPROVER_ensures(g_nusers == 0 ==> __CPROVER_return_value >= SCORE_IDLE_MIN)
__CPROVER_ensures(g_nusers == 1 && !SPEC_HELD(0) ==> (__CPROVER_return_value <= SCORE_PEDAL1_MAX && __CPROVER_return_value >= SCORE_PEDAL1_MIN))
__CPROVER_ensures(g_nusers >= 1 ==> __CPROVER_return_value <= SCORE_PEDAL1_MAX)
__CPROVER_ensures(SPEC_ANY_HELD ==> __CPROVER_return_value <= SCORE_HELD_MAX);

/* ---- selection loop of realTime_NoteOn (range from `int32_t c = -1;` to `if(c < 0)`) --------------------------- */
/* Each chip channel is summarised by the class of its user list (ghost array): the goodness contract above, re-indexed
 * by channel.  CL_OTHER = several users, none with its key down. */
enum { CL_IDLE = 0, CL_PEDAL1, CL_HELD, CL_OTHER };
extern uint8_t g_class[ENV_MAX_CH_ALLOC]; extern size_t g_sel_w;
typedef struct { int32_t c; int32_t bs; } sel_result;
extern sel_result g_sel;
#define SEL_SKIP(x) (ccount == 1 && (int32_t)(x) == adlchannel[0])
#define SEL_LOWER(x) (g_class[x] == CL_IDLE ? SCORE_IDLE_MIN : (g_class[x] == CL_PEDAL1 ? SCORE_PEDAL1_MIN : SCORE_MIN))
#define SEL_UPPER(x) (g_class[x] == CL_IDLE ? 0 : (g_class[x] == CL_HELD ? SCORE_HELD_MAX : SCORE_PEDAL1_MAX))
int64_t contract_goodness_by_class(size_t c, const Phys *ins__p)
__CPROVER_requires(c < g_synth.m_numChannels && c < ENV_MAX_CH_ALLOC)
__CPROVER_assigns()
__CPROVER_ensures(__CPROVER_return_value <= SEL_UPPER(c) && __CPROVER_return_value >= SEL_LOWER(c) && __CPROVER_return_value >= SCORE_MIN);

/* ---- prepareChipChannelForNewNote: a channel without users is left exactly as it is (range: its first statement) ---- */
extern bool g_prep_continued;
void prepareChipChannelForNewNote_first(size_t c, const Phys *ins__p)
__CPROVER_requires(g_play.m_chipChannels == g_chipchan_win - c)
__CPROVER_assigns(g_prep_continued)
__CPROVER_ensures(g_prep_continued == (g_chipchan_win[0].users.size_ != 0));
#endif
