/* Loop contracts for the VERIF_LOOP(<id>) markers in /repo (guard LIBOPNMIDI_VERIF).
 * Included by /repo/src/opnmidi_verif.h when the guard is on.  Every id used in the repository must have a
 * definition here, otherwise the harness does not compile (reported as a tool error, never as a violation).
 * A harness may pre-define an id (e.g. as empty, to unwind that loop instead). */
#ifndef OPNMIDI_VERIF_CONTRACTS_H
#define OPNMIDI_VERIF_CONTRACTS_H

#ifndef VERIF_SEGMENTS
#define VERIF_LOOP(id) VERIF_LOOP_##id

/* ---- C14: the three loops of the Nuked core's buffered-write / sample functions (src/chips/nuked/ym3438.c).
 * NUKED_INV comes from nuked_contracts.h, which the harness includes before the repository file. Partial correctness:
 * `while(skip--)` and the queue flush have no variant here (termination of the core is not part of the claim). */
#define VERIF_LOOP_nuked_writebuffered_skip \
    __CPROVER_assigns(skip, __CPROVER_object_whole(chip), __CPROVER_object_whole(buffer)) \
    __CPROVER_loop_invariant(NUKED_INV(chip))
#define VERIF_LOOP_nuked_generate_cycles \
    __CPROVER_assigns(i, mute, channel, __CPROVER_object_whole(buffer), buf[0], buf[1], __CPROVER_object_whole(chip)) \
    __CPROVER_loop_invariant(i <= 24 && NUKED_INV(chip)) \
    __CPROVER_decreases(24 - i)
#define VERIF_LOOP_nuked_generate_flush \
    __CPROVER_assigns(__CPROVER_object_whole(chip)) \
    __CPROVER_loop_invariant(NUKED_INV(chip))
#define VERIF_GHOST(decl) decl
#define VERIF_ENTRY(id)
#else
/* ------------------------------------------------------------------------------------------------------
 * Loop-head cut points (DESIGN.md C15.5).  The function is compiled unchanged; the markers turn every marked
 * loop head into a cut point:
 *   - arriving at a marked loop head stops the function there and captures the locals into g_out (g_seg_exit = id);
 *   - VERIF_ENTRY lets the harness START at a marked loop head: the locals are restored from g_in at the label.
 * One segment = from the start point to the first cut point or return reached; every segment is loop free
 * (a loop head is never passed twice).  The harness assumes the loop invariant on g_in and asserts the invariant of
 * the loop whose head is reached (base, step and exit cases of the loop rule) or the postcondition on return. */
#define VERIF_GHOST(decl) decl
#define VERIF_LOOP(id) verif_lbl_##id: \
    if((g_seg_start == VERIF_ID_##id && !g_seg_started) ? (VERIF_RESTORE_##id, g_seg_started = 1, 0) : 1) \
    { VERIF_CAPTURE_##id; g_seg_exit = VERIF_ID_##id; return VERIF_RET_##id; } else
#define VERIF_ENTRY(id) VERIF_ENTRY_##id

enum { VERIF_ID_wopn_load_names_i = 1, VERIF_ID_wopn_load_names_j, VERIF_ID_wopn_load_ins_i, VERIF_ID_wopn_load_ins_j, VERIF_ID_wopn_load_ins_k,
       VERIF_ID_wopn_save_names_i = 11, VERIF_ID_wopn_save_names_j, VERIF_ID_wopn_save_ins_i, VERIF_ID_wopn_save_ins_j, VERIF_ID_wopn_save_ins_k };
struct verif_seg_state
{
    struct WOPNFile *file; unsigned short i, j, k, version, cm, cp; unsigned char *cursor;
    struct WOPNBank *bs0, *bs1; unsigned short sz0, sz1; unsigned long length, length0; unsigned short ins_size;
    unsigned long hdr;   /* ghost: bytes of magic+version+counts+flags (16 or 18) */
};
extern struct verif_seg_state g_in, g_out;
extern int g_seg_start, g_seg_started, g_seg_exit;

#define VERIF_ENTRY_wopn_load switch(g_seg_start) { \
    case VERIF_ID_wopn_load_names_i: goto verif_lbl_wopn_load_names_i; case VERIF_ID_wopn_load_names_j: goto verif_lbl_wopn_load_names_j; \
    case VERIF_ID_wopn_load_ins_i: goto verif_lbl_wopn_load_ins_i; case VERIF_ID_wopn_load_ins_j: goto verif_lbl_wopn_load_ins_j; \
    case VERIF_ID_wopn_load_ins_k: goto verif_lbl_wopn_load_ins_k; default: break; }
#define VERIF_ENTRY_wopn_save switch(g_seg_start) { \
    case VERIF_ID_wopn_save_names_i: goto verif_lbl_wopn_save_names_i; case VERIF_ID_wopn_save_names_j: goto verif_lbl_wopn_save_names_j; \
    case VERIF_ID_wopn_save_ins_i: goto verif_lbl_wopn_save_ins_i; case VERIF_ID_wopn_save_ins_j: goto verif_lbl_wopn_save_ins_j; \
    case VERIF_ID_wopn_save_ins_k: goto verif_lbl_wopn_save_ins_k; default: break; }

/* the current bank is a one-element typed window: bankslots[SEG_I] = window - j, written over the restored local j
 * so that window - j + j cancels syntactically (SEG_I is the compile-time slot of the group) */
extern struct WOPNBank verif_env_win0[1], verif_env_win1[1];
#ifndef SEG_I
#define SEG_I 0
#endif
#if defined(SEG_NAME_WINDOW)
/* bank-name loops: only the first 35 bytes of the current bank (name, LSB, MSB) are touched; the window is an object
 * of exactly those bytes, so any access beyond them is an out-of-bounds failure */
struct verif_bank_head { char bank_name[33]; unsigned char bank_midi_lsb, bank_midi_msb; };
extern struct verif_bank_head verif_env_name_win[1];
#define SEG_WIN_BASE ((struct WOPNBank *)(void *)verif_env_name_win - j)
#define SEG_RESTORE_WINDOWS bankslots[0] = (SEG_I == 0 ? SEG_WIN_BASE : verif_env_win0), bankslots[1] = (SEG_I == 1 ? SEG_WIN_BASE : verif_env_win1)
#elif !defined(SEG_INS_WINDOW)
#define SEG_RESTORE_WINDOWS bankslots[0] = verif_env_win0 - (SEG_I == 0 ? j : 0), bankslots[1] = verif_env_win1 - (SEG_I == 1 ? j : 0)
#else
/* record loops: the current record bankslots[SEG_I][j].ins[k] is a one-element typed window of its own (a symbolic k
 * inside a 9 KB bank object made every char access of strncpy a symbolic byte operation over the whole bank) */
extern struct WOPNInstrument verif_env_ins_win[1];
#define SEG_WIN_BASE ((struct WOPNBank *)((char *)(verif_env_ins_win - k) - __builtin_offsetof(struct WOPNBank, ins)) - j)   /* element-scaled, like the code's own [j] and .ins[k] */
#define SEG_RESTORE_WINDOWS bankslots[0] = (SEG_I == 0 ? SEG_WIN_BASE : verif_env_win0), bankslots[1] = (SEG_I == 1 ? SEG_WIN_BASE : verif_env_win1)
#endif
#define SEG_RESTORE_LOAD (outFile = g_in.file, i = g_in.i, j = g_in.j, k = g_in.k, version = g_in.version, \
    count_melodic_banks = g_in.cm, count_percussive_banks = g_in.cp, cursor = g_in.cursor, SEG_RESTORE_WINDOWS, \
    bankslots_sizes[0] = g_in.sz0, bankslots_sizes[1] = g_in.sz1, length = g_in.length, verif_length0 = g_in.length0)
#define SEG_CAPTURE_LOAD (g_out.file = outFile, g_out.i = i, g_out.j = j, g_out.k = k, g_out.version = version, \
    g_out.cm = count_melodic_banks, g_out.cp = count_percussive_banks, g_out.cursor = cursor, g_out.bs0 = bankslots[0], g_out.bs1 = bankslots[1], \
    g_out.sz0 = bankslots_sizes[0], g_out.sz1 = bankslots_sizes[1], g_out.length = length, g_out.length0 = verif_length0)
#define VERIF_RESTORE_wopn_load_names_i SEG_RESTORE_LOAD
#define VERIF_RESTORE_wopn_load_names_j SEG_RESTORE_LOAD
#define VERIF_RESTORE_wopn_load_ins_i (SEG_RESTORE_LOAD, insSize = g_in.ins_size)
#define VERIF_RESTORE_wopn_load_ins_j (SEG_RESTORE_LOAD, insSize = g_in.ins_size)
#define VERIF_RESTORE_wopn_load_ins_k (SEG_RESTORE_LOAD, insSize = g_in.ins_size)
#define VERIF_CAPTURE_wopn_load_names_i SEG_CAPTURE_LOAD
#define VERIF_CAPTURE_wopn_load_names_j SEG_CAPTURE_LOAD
#define VERIF_CAPTURE_wopn_load_ins_i (SEG_CAPTURE_LOAD, g_out.ins_size = insSize)
#define VERIF_CAPTURE_wopn_load_ins_j (SEG_CAPTURE_LOAD, g_out.ins_size = insSize)
#define VERIF_CAPTURE_wopn_load_ins_k (SEG_CAPTURE_LOAD, g_out.ins_size = insSize)
#define VERIF_RET_wopn_load_names_i NULL
#define VERIF_RET_wopn_load_names_j NULL
#define VERIF_RET_wopn_load_ins_i NULL
#define VERIF_RET_wopn_load_ins_j NULL
#define VERIF_RET_wopn_load_ins_k NULL

#define SEG_RESTORE_SAVE (cursor = g_in.cursor, ins_size = g_in.ins_size, i = g_in.i, j = g_in.j, k = g_in.k, version = g_in.version, \
    banks_melodic = g_in.sz0, banks_percussive = g_in.sz1, SEG_RESTORE_WINDOWS, \
    bankslots_sizes[0] = g_in.sz0, bankslots_sizes[1] = g_in.sz1, length = g_in.length, verif_length0 = g_in.length0)
#define SEG_CAPTURE_SAVE (g_out.cursor = cursor, g_out.ins_size = ins_size, g_out.i = i, g_out.j = j, g_out.k = k, g_out.version = version, \
    g_out.cm = banks_melodic, g_out.cp = banks_percussive, g_out.bs0 = bankslots[0], g_out.bs1 = bankslots[1], \
    g_out.sz0 = bankslots_sizes[0], g_out.sz1 = bankslots_sizes[1], g_out.length = length, g_out.length0 = verif_length0, g_out.file = file)
#define VERIF_RESTORE_wopn_save_names_i SEG_RESTORE_SAVE
#define VERIF_RESTORE_wopn_save_names_j SEG_RESTORE_SAVE
#define VERIF_RESTORE_wopn_save_ins_i SEG_RESTORE_SAVE
#define VERIF_RESTORE_wopn_save_ins_j SEG_RESTORE_SAVE
#define VERIF_RESTORE_wopn_save_ins_k SEG_RESTORE_SAVE
#define VERIF_CAPTURE_wopn_save_names_i SEG_CAPTURE_SAVE
#define VERIF_CAPTURE_wopn_save_names_j SEG_CAPTURE_SAVE
#define VERIF_CAPTURE_wopn_save_ins_i SEG_CAPTURE_SAVE
#define VERIF_CAPTURE_wopn_save_ins_j SEG_CAPTURE_SAVE
#define VERIF_CAPTURE_wopn_save_ins_k SEG_CAPTURE_SAVE
#define VERIF_RET_wopn_save_names_i (-99)
#define VERIF_RET_wopn_save_names_j (-99)
#define VERIF_RET_wopn_save_ins_i (-99)
#define VERIF_RET_wopn_save_ins_j (-99)
#define VERIF_RET_wopn_save_ins_k (-99)
#endif

#ifndef VERIF_SEGMENTS
/* ---------------------------------------------------------------- wopn_file.c (DFCC loop contracts) ------ */
/* cursor walks the caller's block: same object, and what has been consumed plus what is left is the
 * length the function was called with */
#define WOPN_CUR_INV(base) \
    (__CPROVER_same_object(cursor, (const uint8_t *)(base)) && length <= verif_length0 && \
     (size_t)__CPROVER_POINTER_OFFSET(cursor) == (size_t)__CPROVER_POINTER_OFFSET((const uint8_t *)(base)) + (verif_length0 - length))
/* bytes still needed by the instrument loops (size is 65 or 69, written as a case split to keep the
 * multiplications by constants) */
#define WOPN_NEED(sz, nbanks128) ((sz) == 69 ? (size_t)69 * (size_t)(nbanks128) : (size_t)65 * (size_t)(nbanks128))

#ifndef VERIF_LOOP_wopn_load_names_i
#define VERIF_LOOP_wopn_load_names_i \
    __CPROVER_assigns(i, j, cursor, length, __CPROVER_object_whole(bankslots[0]), __CPROVER_object_whole(bankslots[1])) \
    __CPROVER_loop_invariant(i <= 2 && WOPN_CUR_INV(mem)) \
    __CPROVER_decreases(2 - i)
#endif
#ifndef VERIF_LOOP_wopn_load_names_j
#define VERIF_LOOP_wopn_load_names_j \
    __CPROVER_assigns(j, cursor, length, __CPROVER_object_whole(bankslots[i])) \
    __CPROVER_loop_invariant(i < 2 && j <= bankslots_sizes[i] && WOPN_CUR_INV(mem)) \
    __CPROVER_decreases(bankslots_sizes[i] - j)
#endif
#ifndef VERIF_LOOP_wopn_load_ins_i
#define VERIF_LOOP_wopn_load_ins_i \
    __CPROVER_assigns(i, j, k, cursor, length, __CPROVER_object_whole(bankslots[0]), __CPROVER_object_whole(bankslots[1])) \
    __CPROVER_loop_invariant(i <= 2 && WOPN_CUR_INV(mem) && (insSize == 65 || insSize == 69)) \
    __CPROVER_decreases(2 - i)
#endif
#ifndef VERIF_LOOP_wopn_load_ins_j
#define VERIF_LOOP_wopn_load_ins_j \
    __CPROVER_assigns(j, k, cursor, length, __CPROVER_object_whole(bankslots[i])) \
    __CPROVER_loop_invariant(i < 2 && j <= bankslots_sizes[i] && WOPN_CUR_INV(mem) && (insSize == 65 || insSize == 69) && \
                             length >= WOPN_NEED(insSize, 128 * (size_t)(bankslots_sizes[i] - j))) \
    __CPROVER_decreases(bankslots_sizes[i] - j)
#endif
#ifndef VERIF_LOOP_wopn_load_ins_k
#define VERIF_LOOP_wopn_load_ins_k \
    __CPROVER_assigns(k, cursor, length, __CPROVER_object_whole(bankslots[i])) \
    __CPROVER_loop_invariant(i < 2 && j < bankslots_sizes[i] && k <= 128 && WOPN_CUR_INV(mem) && (insSize == 65 || insSize == 69) && \
                             length >= WOPN_NEED(insSize, (128 - (size_t)k) + 128 * (size_t)(bankslots_sizes[i] - j - 1))) \
    __CPROVER_decreases(128 - k)
#endif

#ifndef VERIF_LOOP_wopn_save_names_i
#define VERIF_LOOP_wopn_save_names_i \
    __CPROVER_assigns(i, j, cursor, length, __CPROVER_object_whole(dest_mem)) \
    __CPROVER_loop_invariant(i <= 2 && WOPN_CUR_INV(dest_mem)) \
    __CPROVER_decreases(2 - i)
#endif
#ifndef VERIF_LOOP_wopn_save_names_j
#define VERIF_LOOP_wopn_save_names_j \
    __CPROVER_assigns(j, cursor, length, __CPROVER_object_whole(dest_mem)) \
    __CPROVER_loop_invariant(i < 2 && j <= bankslots_sizes[i] && WOPN_CUR_INV(dest_mem)) \
    __CPROVER_decreases(bankslots_sizes[i] - j)
#endif
#ifndef VERIF_LOOP_wopn_save_ins_i
#define VERIF_LOOP_wopn_save_ins_i \
    __CPROVER_assigns(i, j, k, cursor, length, __CPROVER_object_whole(dest_mem)) \
    __CPROVER_loop_invariant(i <= 2 && WOPN_CUR_INV(dest_mem) && (ins_size == 65 || ins_size == 69)) \
    __CPROVER_decreases(2 - i)
#endif
#ifndef VERIF_LOOP_wopn_save_ins_j
#define VERIF_LOOP_wopn_save_ins_j \
    __CPROVER_assigns(j, k, cursor, length, __CPROVER_object_whole(dest_mem)) \
    __CPROVER_loop_invariant(i < 2 && j <= bankslots_sizes[i] && WOPN_CUR_INV(dest_mem) && (ins_size == 65 || ins_size == 69) && \
                             length >= WOPN_NEED(ins_size, 128 * (size_t)(bankslots_sizes[i] - j))) \
    __CPROVER_decreases(bankslots_sizes[i] - j)
#endif
#ifndef VERIF_LOOP_wopn_save_ins_k
#define VERIF_LOOP_wopn_save_ins_k \
    __CPROVER_assigns(k, cursor, length, __CPROVER_object_whole(dest_mem)) \
    __CPROVER_loop_invariant(i < 2 && j < bankslots_sizes[i] && k <= 128 && WOPN_CUR_INV(dest_mem) && (ins_size == 65 || ins_size == 69) && \
                             length >= WOPN_NEED(ins_size, (128 - (size_t)k) + 128 * (size_t)(bankslots_sizes[i] - j - 1))) \
    __CPROVER_decreases(128 - k)
#endif

#endif /* !VERIF_SEGMENTS */

/* ---------------------------------------------------------------- OPN2::noteOn (opnmidi_opn2.cpp) ---------- */
/* Both loops halve a finite non-negative double.  The first is bounded by its integer counter; the second strictly
 * decreases the integer part of hertz (hertz >= 2036.75 > 2, so floor(hertz / 2) < floor(hertz)). */
#ifndef VERIF_LOOP_opn2_noteon_octave
#define VERIF_LOOP_opn2_noteon_octave \
    __CPROVER_assigns(hertz, octave) \
    __CPROVER_loop_invariant(octave <= 0x3800 && (octave & 0x7FF) == 0 && hertz >= 0.0 && hertz <= 1.0e15) \
    __CPROVER_decreases(0x3800 - octave)
#endif
#ifndef VERIF_LOOP_opn2_noteon_mul
#define VERIF_LOOP_opn2_noteon_mul \
    __CPROVER_assigns(hertz, mul_offset) \
    __CPROVER_loop_invariant(octave <= 0x3800 && (octave & 0x7FF) == 0 && hertz >= 0.0 && hertz <= 1.0e15) \
    __CPROVER_decreases((unsigned long)hertz)
#endif

/* ---------------------------------------------------------------- realTime_NoteOn: chip-channel selection loop ---- */
/* argmax over the channels scanned so far; the ghost witness g_sel_w is an arbitrary channel: once it has been scanned
 * (and is not the skipped primary channel) the best score is at least the lower bound of its class.  SEL_* come from
 * contracts/alloc_contracts.h. */
#ifndef VERIF_LOOP_midiplay_noteon_select
#define VERIF_LOOP_midiplay_noteon_select \
    __CPROVER_assigns(a, c, bs) \
    __CPROVER_loop_invariant(a <= (size_t)(*synth__p).m_numChannels && c >= -1 && (c < 0 || (size_t)c < a) && \
                             (c == -1 ? bs == -0x7FFFFFFFl : (bs <= SEL_UPPER(c) && bs >= SCORE_MIN && !SEL_SKIP(c))) && \
                             ((g_sel_w < a && !SEL_SKIP(g_sel_w)) ==> (c >= 0 && bs >= SEL_LOWER(g_sel_w)))) \
    __CPROVER_decreases((size_t)(*synth__p).m_numChannels - a)
#endif

/* ---------------------------------------------------------------- opn2_generateFormat: period loop -------------------- */
/* partial correctness only (progress depends on floating-point accumulation): what has been handed out plus what is left is
 * the even request; the carry stays a fraction; the request position stays even and inside the request */
#ifndef VERIF_LOOP_opnmidi_generate_period
#define VERIF_LOOP_opnmidi_generate_period \
    __CPROVER_assigns(left, delay, gotten_len, n_periodCountStereo, g_play.m_setup.carry, __CPROVER_object_upto(g_play.m_outBuf, sizeof(g_play.m_outBuf)), g_gen_calls, g_send_calls, g_tick_calls, g_sent_frames) \
    __CPROVER_loop_invariant(left >= 0 && left <= sampleCount && left % 2 == 0) \
    __CPROVER_loop_invariant(gotten_len == (ssize_t)sampleCount - (ssize_t)left && g_sent_frames >= 0 && g_sent_frames <= 1073741823 && gotten_len == 2 * g_sent_frames) \
    __CPROVER_loop_invariant(g_play.m_setup.carry >= 0.0 && g_play.m_setup.carry < 1.0) \
    __CPROVER_loop_invariant(delay <= 2.0e9 && !(delay != delay))
#endif

/* opn2_playFormat: the same request accounting; the pending delay stays finite and not negative; skipping is only active
 * while the stored skip count is positive */
#ifndef VERIF_LOOP_opnmidi_play_period
#define VERIF_LOOP_opnmidi_play_period \
    __CPROVER_assigns(left, gotten_len, n_periodCountStereo, hasSkipped, g_play.m_setup.carry, g_play.m_setup.delay, g_play.m_setup.tick_skip_samples_delay, \
                      __CPROVER_object_upto(g_play.m_outBuf, sizeof(g_play.m_outBuf)), g_gen_calls, g_send_calls, g_tick_calls, g_atend_seen, g_sent_frames) \
    __CPROVER_loop_invariant(left >= 0 && left <= sampleCount && left % 2 == 0) \
    __CPROVER_loop_invariant(gotten_len == (ssize_t)sampleCount - (ssize_t)left && g_sent_frames >= 0 && g_sent_frames <= 1073741823 && gotten_len == 2 * g_sent_frames) \
    __CPROVER_loop_invariant(g_play.m_setup.carry >= 0.0 && g_play.m_setup.carry < 1.0) \
    __CPROVER_loop_invariant(g_play.m_setup.delay >= 0.0 && g_play.m_setup.delay <= 1.0e9) \
    __CPROVER_loop_invariant(g_play.m_setup.tick_skip_samples_delay >= -SKIP_BOUND && g_play.m_setup.tick_skip_samples_delay <= SKIP_BOUND) \
    __CPROVER_loop_invariant(!hasSkipped || g_play.m_setup.tick_skip_samples_delay > 0) \
    __CPROVER_loop_invariant(g_atend_seen == 0 || g_atend_seen == 1)
#endif

#endif
