/* Loop contracts for the VERIF_LOOP(<id>) markers in /repo (guard LIBOPNMIDI_VERIF).
 * Included by /repo/src/opnmidi_verif.h when the guard is on.  Every id used in the repository must have a
 * definition here, otherwise the harness does not compile (reported as a tool error, never as a violation).
 * A harness may pre-define an id (e.g. as empty, to unwind that loop instead). */
#ifndef OPNMIDI_VERIF_CONTRACTS_H
#define OPNMIDI_VERIF_CONTRACTS_H

#define VERIF_LOOP(id) VERIF_LOOP_##id
#define VERIF_GHOST(decl) decl

/* ---------------------------------------------------------------- wopn_file.c ---------------------- */
/* cursor walks the caller's block: same object, and what has been consumed plus what is left is the
 * length the function was called with */
#define WOPN_CUR_INV(base) \
    (__CPROVER_same_object(cursor, (const uint8_t *)(base)) && length <= verif_length0 && \
     (size_t)__CPROVER_POINTER_OFFSET(cursor) == (size_t)__CPROVER_POINTER_OFFSET((const uint8_t *)(base)) + (verif_length0 - length))
/* bytes still needed by the instrument loops (size is 65 or 69, written as a case split to keep the
 * multiplications by constants) */
#define WOPN_NEED(sz, nbanks128) ((sz) == 69 ? (size_t)69 * (size_t)(nbanks128) : (size_t)65 * (size_t)(nbanks128))

#ifndef VERIF_LOOP_wopn_load_names_i
#define VERIF_LOOP_wopn_load_names_i \
    __CPROVER_assigns(i, j, cursor, length, __CPROVER_object_whole(bankslots[0]), __CPROVER_object_whole(bankslots[1])) \
    __CPROVER_loop_invariant(i <= 2 && WOPN_CUR_INV(mem)) \
    __CPROVER_decreases(2 - i)
#endif
#ifndef VERIF_LOOP_wopn_load_names_j
#define VERIF_LOOP_wopn_load_names_j \
    __CPROVER_assigns(j, cursor, length, __CPROVER_object_whole(bankslots[i])) \
    __CPROVER_loop_invariant(i < 2 && j <= bankslots_sizes[i] && WOPN_CUR_INV(mem)) \
    __CPROVER_decreases(bankslots_sizes[i] - j)
#endif
#ifndef VERIF_LOOP_wopn_load_ins_i
#define VERIF_LOOP_wopn_load_ins_i \
    __CPROVER_assigns(i, j, k, cursor, length, __CPROVER_object_whole(bankslots[0]), __CPROVER_object_whole(bankslots[1])) \
    __CPROVER_loop_invariant(i <= 2 && WOPN_CUR_INV(mem) && (insSize == 65 || insSize == 69)) \
    __CPROVER_decreases(2 - i)
#endif
#ifndef VERIF_LOOP_wopn_load_ins_j
#define VERIF_LOOP_wopn_load_ins_j \
    __CPROVER_assigns(j, k, cursor, length, __CPROVER_object_whole(bankslots[i])) \
    __CPROVER_loop_invariant(i < 2 && j <= bankslots_sizes[i] && WOPN_CUR_INV(mem) && (insSize == 65 || insSize == 69) && \
                             length >= WOPN_NEED(insSize, 128 * (size_t)(bankslots_sizes[i] - j))) \
    __CPROVER_decreases(bankslots_sizes[i] - j)
#endif
#ifndef VERIF_LOOP_wopn_load_ins_k
#define VERIF_LOOP_wopn_load_ins_k \
    __CPROVER_assigns(k, cursor, length, __CPROVER_object_whole(bankslots[i])) \
    __CPROVER_loop_invariant(i < 2 && j < bankslots_sizes[i] && k <= 128 && WOPN_CUR_INV(mem) && (insSize == 65 || insSize == 69) && \
                             length >= WOPN_NEED(insSize, (128 - (size_t)k) + 128 * (size_t)(bankslots_sizes[i] - j - 1))) \
    __CPROVER_decreases(128 - k)
#endif

#ifndef VERIF_LOOP_wopn_save_names_i
#define VERIF_LOOP_wopn_save_names_i \
    __CPROVER_assigns(i, j, cursor, length, __CPROVER_object_whole(dest_mem)) \
    __CPROVER_loop_invariant(i <= 2 && WOPN_CUR_INV(dest_mem)) \
    __CPROVER_decreases(2 - i)
#endif
#ifndef VERIF_LOOP_wopn_save_names_j
#define VERIF_LOOP_wopn_save_names_j \
    __CPROVER_assigns(j, cursor, length, __CPROVER_object_whole(dest_mem)) \
    __CPROVER_loop_invariant(i < 2 && j <= bankslots_sizes[i] && WOPN_CUR_INV(dest_mem)) \
    __CPROVER_decreases(bankslots_sizes[i] - j)
#endif
#ifndef VERIF_LOOP_wopn_save_ins_i
#define VERIF_LOOP_wopn_save_ins_i \
    __CPROVER_assigns(i, j, k, cursor, length, __CPROVER_object_whole(dest_mem)) \
    __CPROVER_loop_invariant(i <= 2 && WOPN_CUR_INV(dest_mem) && (ins_size == 65 || ins_size == 69)) \
    __CPROVER_decreases(2 - i)
#endif
#ifndef VERIF_LOOP_wopn_save_ins_j
#define VERIF_LOOP_wopn_save_ins_j \
    __CPROVER_assigns(j, k, cursor, length, __CPROVER_object_whole(dest_mem)) \
    __CPROVER_loop_invariant(i < 2 && j <= bankslots_sizes[i] && WOPN_CUR_INV(dest_mem) && (ins_size == 65 || ins_size == 69) && \
                             length >= WOPN_NEED(ins_size, 128 * (size_t)(bankslots_sizes[i] - j))) \
    __CPROVER_decreases(bankslots_sizes[i] - j)
#endif
#ifndef VERIF_LOOP_wopn_save_ins_k
#define VERIF_LOOP_wopn_save_ins_k \
    __CPROVER_assigns(k, cursor, length, __CPROVER_object_whole(dest_mem)) \
    __CPROVER_loop_invariant(i < 2 && j < bankslots_sizes[i] && k <= 128 && WOPN_CUR_INV(dest_mem) && (ins_size == 65 || ins_size == 69) && \
                             length >= WOPN_NEED(ins_size, (128 - (size_t)k) + 128 * (size_t)(bankslots_sizes[i] - j - 1))) \
    __CPROVER_decreases(128 - k)
#endif

#endif
