/* Pure C specification predicates for C19 (no CBMC constructs): shared by the contract header and the native
 * replay driver, so that the replay judges the real library with the same predicate the proof used. */
#ifndef SYSEX_SPEC_H
#define SYSEX_SPEC_H
#include <stdint.h>
#include <stddef.h>
#include <stdbool.h>
/* ---------------- specification of "well-formed, correctly addressed" (statement of C19) --------------- */
typedef enum { SX_NONE = 0, SX_GM_ON, SX_GM_OFF, SX_MASTER_VOLUME, SX_GS_SYSTEM_MODE, SX_GS_MODE, SX_GS_DRUM_PART, SX_XG_ON } sysex_kind;

/* Roland checksum over address and data bytes msg[5..8] */
#define SPEC_ROLAND_SUM_OK(m) ((((unsigned)((m)[5] & 0x7F) + ((m)[6] & 0x7F) + ((m)[7] & 0x7F) + ((m)[8] & 0x7F) + ((m)[9] & 0x7F)) & 127u) == 0u)

/* NECESSARY conditions: a message may take effect only if this is not SX_NONE.  Addressing is the statement's
 * "this device id or the broadcast id"; exact lengths; Roland checksum. (7-bit payload bytes are compared
 * after masking, as a receiver that ignores the status bit does.) */
static sysex_kind spec_sysex_kind(const uint8_t *m, size_t size, uint8_t devid)
{
    if(size < 6 || m[0] != 0xF0 || m[size - 1] != 0xF7)
        return SX_NONE;
    unsigned man = m[1], dev = m[2];
    if(man == 0x7E || man == 0x7F)
    {
        if(!(dev == 0x7F || dev == devid)) return SX_NONE;
        unsigned s1 = m[3] & 0x7F, s2 = m[4] & 0x7F;
        if(man == 0x7E && s1 == 0x09 && s2 == 0x01 && size == 6) return SX_GM_ON;
        if(man == 0x7E && s1 == 0x09 && s2 == 0x02 && size == 6) return SX_GM_OFF;
        if(man == 0x7F && s1 == 0x04 && s2 == 0x01 && size == 8) return SX_MASTER_VOLUME;
        return SX_NONE;
    }
    if(man == 0x41)
    {
        if(!(dev == 0x7F || (dev & 0x0F) == devid)) return SX_NONE;
        if(size != 11) return SX_NONE;
        if((m[3] & 0x7F) != 0x42 || (m[4] & 0x7F) != 0x12) return SX_NONE;
        if(!SPEC_ROLAND_SUM_OK(m)) return SX_NONE;
        unsigned a0 = m[5] & 0x7F, a1 = m[6] & 0x7F, a2 = m[7] & 0x7F;
        if(a0 == 0x00 && a1 == 0x00 && a2 == 0x7F) return SX_GS_SYSTEM_MODE;
        if(a0 == 0x40 && a1 == 0x00 && a2 == 0x7F) return SX_GS_MODE;
        if(a0 == 0x40 && (a1 & 0x70) == 0x10 && a2 == 0x15) return SX_GS_DRUM_PART;
        return SX_NONE;
    }
    if(man == 0x43)
    {
        if(!(dev == 0x7F || (dev & 0x0F) == devid)) return SX_NONE;
        if(size != 9) return SX_NONE;
        if((m[3] & 0x7F) != 0x4C) return SX_NONE;
        if((m[4] & 0x7F) == 0x00 && (m[5] & 0x7F) == 0x00 && (m[6] & 0x7F) == 0x7E) return SX_XG_ON;
        return SX_NONE;
    }
    return SX_NONE;
}

/* SUFFICIENT conditions: the documented messages, clean 7-bit payload, addressed to the instance's own id
 * (Roland/Yamaha: device byte 0x10|id).  These must be accepted. */
static bool spec_sysex_strict(const uint8_t *m, size_t size, uint8_t devid)
{
    sysex_kind k = spec_sysex_kind(m, size, devid);
    if(k == SX_NONE || devid > 0x0F) return false;
    bool clean = true;
    for(size_t i = 1; i + 1 < 64; i++)
        clean = clean && (i + 1 >= size || m[i] < 0x80);
    if(!clean) return false;
    if(k == SX_GM_ON || k == SX_GM_OFF || k == SX_MASTER_VOLUME) return m[2] == devid || m[2] == 0x7F;
    return m[2] == (0x10 | devid);
}


#endif
