/* Contracts for /repo/src/wopn/wopn_file.c  (Route A: the file is verified in place).
 *
 * The harness translation unit is
 *     #include "wopn_contracts.h"
 *     #include REPO "/src/wopn/wopn_file.c"
 * CBMC merges the contract clauses written on these forward declarations with the definitions in the
 * repository file (also for `static` functions, because the declaration is in the same TU).
 *
 * Spec functions (spec_*) are specification text written from the property statement (C15, C02) and from
 * docs/wopn specification.txt; they are never called by the code under proof.
 */
#ifndef WOPN_CONTRACTS_H
#define WOPN_CONTRACTS_H
#include <stdint.h>
#include <stddef.h>
#include <stdbool.h>
#include <string.h>
#include <stdlib.h>
#include "wopn/wopn_file.h"

#define U8(p) ((const uint8_t *)(p))
#define SPEC_MAX_OBJECT ((size_t)1 << 40)   /* assumption: no object is larger than 2^40 bytes (CBMC packs object id and offset into 64 bits) */

/* ---- ghost parameters (set nondeterministically by the harness) --------------------------------- */
extern size_t g_k;          /* ghost byte index for "no other byte changes" clauses */

/* ---- spec: 16-bit codecs ---------------------------------------------------------------------------- */
#define SPEC_U16LE(a) ((uint16_t)((uint16_t)U8(a)[0] | ((uint16_t)U8(a)[1] << 8)))
#define SPEC_U16BE(a) ((uint16_t)((uint16_t)U8(a)[1] | ((uint16_t)U8(a)[0] << 8)))
/* two's complement big-endian: value = b0*256 + b1 - (b0 >= 128 ? 65536 : 0) */
#define SPEC_S16BE(a) ((int)U8(a)[0] * 256 + (int)U8(a)[1] - (U8(a)[0] >= 128 ? 65536 : 0))

static uint16_t toUint16LE(const uint8_t *arr)
__CPROVER_requires(__CPROVER_is_fresh(arr, 2))
__CPROVER_ensures(__CPROVER_return_value == SPEC_U16LE(arr))
__CPROVER_assigns();

static uint16_t toUint16BE(const uint8_t *arr)
__CPROVER_requires(__CPROVER_is_fresh(arr, 2))
__CPROVER_ensures(__CPROVER_return_value == SPEC_U16BE(arr))
__CPROVER_assigns();

static int16_t toSint16BE(const uint8_t *arr)
__CPROVER_requires(__CPROVER_is_fresh(arr, 2))
__CPROVER_ensures((int)__CPROVER_return_value == SPEC_S16BE(arr))
__CPROVER_assigns();

static void fromUint16LE(uint16_t in, uint8_t *arr)
__CPROVER_requires(__CPROVER_is_fresh(arr, 2))
__CPROVER_ensures(SPEC_U16LE(arr) == in)
__CPROVER_assigns(__CPROVER_object_upto(arr, 2));

static void fromUint16BE(uint16_t in, uint8_t *arr)
__CPROVER_requires(__CPROVER_is_fresh(arr, 2))
__CPROVER_ensures(SPEC_U16BE(arr) == in)
__CPROVER_assigns(__CPROVER_object_upto(arr, 2));

static void fromSint16BE(int16_t in, uint8_t *arr)
__CPROVER_requires(__CPROVER_is_fresh(arr, 2))
__CPROVER_ensures(SPEC_S16BE(arr) == (int)in)
__CPROVER_assigns(__CPROVER_object_upto(arr, 2));

/* ---- spec: instrument record ---------------------------------------------------------------------- */
/* bytes on disk of one instrument (docs/wopn specification.txt):
 *  0..31 name (NUL padded), 32..33 note offset (S16 BE), 34 percussion key, 35 fbalg, 36 lfosens,
 *  37+7*l+{0..6} operator l registers 30,40,50,60,70,80,90; v2 bank entries: 65..66 delay on, 67..68 delay off */
#define SPEC_INS_SIZE(version, has_delays) (((version) >= 2 && (has_delays)) ? 69u : 65u)

/* strncpy semantics: bytes up to the first NUL are copied, the rest of the 32 is zero */
static bool spec_name32_copied(const char *dst, const char *src)
{
    bool end = false, ok = true;
    for(int k = 0; k < 32; k++)
    {
        char ch = end ? (char)0 : src[k];
        ok = ok && (dst[k] == ch);
        end = end || (ch == (char)0);
    }
    return ok;
}

/* name as parsed: strncpy of 32 then byte 31 forced to NUL */
static bool spec_name32_parsed(const char *dst, const char *src)
{
    bool end = false, ok = true;
    for(int k = 0; k < 31; k++)
    {
        char ch = end ? (char)0 : src[k];
        ok = ok && (dst[k] == ch);
        end = end || (ch == (char)0);
    }
    return ok && dst[31] == (char)0;
}

#define SPEC_OP_EQ(ins, c, l) \
    ((c)[37 + 7 * (l) + 0] == (ins)->operators[l].dtfm_30 && \
     (c)[37 + 7 * (l) + 1] == (ins)->operators[l].level_40 && \
     (c)[37 + 7 * (l) + 2] == (ins)->operators[l].rsatk_50 && \
     (c)[37 + 7 * (l) + 3] == (ins)->operators[l].amdecay1_60 && \
     (c)[37 + 7 * (l) + 4] == (ins)->operators[l].decay2_70 && \
     (c)[37 + 7 * (l) + 5] == (ins)->operators[l].susrel_80 && \
     (c)[37 + 7 * (l) + 6] == (ins)->operators[l].ssgeg_90)

/* the fixed part of the record (bytes 32..64) agrees with the struct */
#define SPEC_INS_FIXED_EQ(ins, c) \
    (SPEC_S16BE((c) + 32) == (int)(ins)->note_offset && \
     (c)[34] == (ins)->percussion_key_number && (c)[35] == (ins)->fbalg && (c)[36] == (ins)->lfosens && \
     SPEC_OP_EQ(ins, c, 0) && SPEC_OP_EQ(ins, c, 1) && SPEC_OP_EQ(ins, c, 2) && SPEC_OP_EQ(ins, c, 3))

static void WOPN_parseInstrument(WOPNInstrument *ins, uint8_t *cursor, uint16_t version, uint8_t has_sounding_delays)
__CPROVER_requires(__CPROVER_is_fresh(ins, sizeof(WOPNInstrument)))
__CPROVER_requires(__CPROVER_is_fresh(cursor, SPEC_INS_SIZE(version, has_sounding_delays)))
__CPROVER_assigns(*ins)
__CPROVER_ensures(spec_name32_parsed(ins->inst_name, (const char *)cursor))
__CPROVER_ensures(SPEC_INS_FIXED_EQ(ins, cursor))
__CPROVER_ensures(ins->midi_velocity_offset == 0)
/* delays are carried only by version >= 2 bank entries; elsewhere the destination keeps what it had */
__CPROVER_ensures((version >= 2 && has_sounding_delays)
                  ? (ins->delay_on_ms == SPEC_U16BE(cursor + 65) && ins->delay_off_ms == SPEC_U16BE(cursor + 67))
                  : (ins->delay_on_ms == __CPROVER_old(ins->delay_on_ms) && ins->delay_off_ms == __CPROVER_old(ins->delay_off_ms)))
/* the blank flag of version 2 is "both delays are zero"; no other flag exists in the format */
__CPROVER_ensures(ins->inst_flags ==
                  ((version == 2 && has_sounding_delays && SPEC_U16BE(cursor + 65) == 0 && SPEC_U16BE(cursor + 67) == 0)
                   ? WOPN_Ins_IsBlank : 0))
;

static void WOPN_writeInstrument(WOPNInstrument *ins, uint8_t *cursor, uint16_t version, uint8_t has_sounding_delays)
__CPROVER_requires(__CPROVER_is_fresh(ins, sizeof(WOPNInstrument)))
__CPROVER_requires(__CPROVER_is_fresh(cursor, SPEC_INS_SIZE(version, has_sounding_delays)))
/* frame: exactly the record, nothing of *ins */
__CPROVER_assigns((version >= 2 && has_sounding_delays) : __CPROVER_object_upto(cursor, 69))
__CPROVER_assigns(!(version >= 2 && has_sounding_delays) : __CPROVER_object_upto(cursor, 65))
__CPROVER_ensures(spec_name32_copied((const char *)cursor, ins->inst_name))
__CPROVER_ensures(SPEC_INS_FIXED_EQ(ins, cursor))
__CPROVER_ensures(!(version >= 2 && has_sounding_delays) ||
                  ((version == 2 && (ins->inst_flags & WOPN_Ins_IsBlank) != 0)
                   ? (SPEC_U16BE(cursor + 65) == 0 && SPEC_U16BE(cursor + 67) == 0)
                   : (SPEC_U16BE(cursor + 65) == ins->delay_on_ms && SPEC_U16BE(cursor + 67) == ins->delay_off_ms)))
;


/* Frame-only contracts of the record codec (same preconditions and frames as the full contracts above, no value
 * postconditions).  Used at the call sites inside the bank-file loops, where only memory safety and the frame
 * matter; each is itself enforced against the real function (groups ins_parse_frame / ins_write_frame). */
static void contract_parse_frame(WOPNInstrument *ins, uint8_t *cursor, uint16_t version, uint8_t has_sounding_delays)
__CPROVER_requires(__CPROVER_is_fresh(ins, sizeof(WOPNInstrument)))
__CPROVER_requires(__CPROVER_is_fresh(cursor, SPEC_INS_SIZE(version, has_sounding_delays)))
__CPROVER_assigns(*ins)
__CPROVER_ensures(ins->inst_name[31] == 0 && (ins->inst_flags & ~WOPN_Ins_IsBlank) == 0);

static void contract_write_frame(WOPNInstrument *ins, uint8_t *cursor, uint16_t version, uint8_t has_sounding_delays)
__CPROVER_requires(__CPROVER_is_fresh(ins, sizeof(WOPNInstrument)))
__CPROVER_requires(__CPROVER_is_fresh(cursor, SPEC_INS_SIZE(version, has_sounding_delays)))
__CPROVER_assigns((version >= 2 && has_sounding_delays) : __CPROVER_object_upto(cursor, 69))
__CPROVER_assigns(!(version >= 2 && has_sounding_delays) : __CPROVER_object_upto(cursor, 65))
__CPROVER_ensures(cursor[35] == ins->fbalg);

/* ---- spec: OPNI single-instrument file -------------------------------------------------------------- */
#define SPEC_VERSION_EFF(v) ((v) == 0 ? 2 : (v))
#define SPEC_OPNI_SIZE(v) ((size_t)(11 + 1 + (SPEC_VERSION_EFF(v) > 1 ? 2 : 0) + 65))

size_t WOPN_CalculateInstFileSize(OPNIFile *file, uint16_t version)
__CPROVER_requires(file == NULL || __CPROVER_is_fresh(file, sizeof(OPNIFile)))
__CPROVER_ensures(__CPROVER_return_value == (file == NULL ? 0 : SPEC_OPNI_SIZE(version)))
__CPROVER_assigns();

static bool spec_magic_is(const uint8_t *p, const char *magic)
{
    bool ok = true;
    for(int k = 0; k < 11; k++)
        ok = ok && (p[k] == (uint8_t)magic[k]);
    return ok;
}
/* The magic strings are reached through four mutable file-scope pointers.  Modular verification starts a
 * function in an arbitrary state of mutable statics, so "they still point at the magic strings" is a stated
 * precondition; it is an invariant because no function of the file has them in its frame (every frame below
 * is enforced). */
static const char *wopn2_magic1, *wopn2_magic2, *opni_magic1, *opni_magic2;
#define SPEC_MAGIC_PTR_OK(p, lit) (__CPROVER_is_fresh(p, 11) && spec_magic_is((const uint8_t *)(p), lit))
#define SPEC_OPNI_MAGIC1 "WOPN2-INST\0"
#define SPEC_OPNI_MAGIC2 "WOPN2-IN2T\0"
#define SPEC_WOPN_MAGIC1 "WOPN2-BANK\0"
#define SPEC_WOPN_MAGIC2 "WOPN2-B2NK\0"

int WOPN_SaveInstToMem(OPNIFile *file, void *dest_mem, size_t length, uint16_t version)
__CPROVER_requires(SPEC_MAGIC_PTR_OK(opni_magic1, SPEC_OPNI_MAGIC1) && SPEC_MAGIC_PTR_OK(opni_magic2, SPEC_OPNI_MAGIC2))
__CPROVER_requires(__CPROVER_is_fresh(file, sizeof(OPNIFile)))
/* the destination is an object of exactly `length` bytes (the cases dest_mem == NULL and length == 0 are the
 * separate group opni_save_degenerate, because __CPROVER_old cannot be guarded) */
__CPROVER_requires(length <= SPEC_MAX_OBJECT && __CPROVER_is_fresh(dest_mem, length))
__CPROVER_requires(g_k < length)
/* frame: only the destination object, which has exactly `length` bytes - a write at dest+length or beyond
 * is a failed obligation; *file is not in the frame */
__CPROVER_assigns(__CPROVER_object_whole(dest_mem))
/* success exactly when the size calculator's figure fits */
__CPROVER_ensures((__CPROVER_return_value == WOPN_ERR_OK) == (length >= SPEC_OPNI_SIZE(version)))
__CPROVER_ensures(length < SPEC_OPNI_SIZE(version) ==> __CPROVER_return_value == WOPN_ERR_UNEXPECTED_ENDING)
/* no byte at or beyond the reported size is written (ghost index g_k ranges over all offsets) */
__CPROVER_ensures(g_k >= SPEC_OPNI_SIZE(version) ==> U8(dest_mem)[g_k] == __CPROVER_old(U8(dest_mem)[g_k]))
/* layout of a successful save */
__CPROVER_ensures(__CPROVER_return_value == WOPN_ERR_OK ==>
                  (SPEC_VERSION_EFF(version) > 1
                   ? (spec_magic_is(U8(dest_mem), SPEC_OPNI_MAGIC2) && SPEC_U16LE(U8(dest_mem) + 11) == SPEC_VERSION_EFF(version) &&
                      U8(dest_mem)[13] == file->is_drum)
                   : (spec_magic_is(U8(dest_mem), SPEC_OPNI_MAGIC1) && U8(dest_mem)[11] == file->is_drum)))
;

int WOPN_LoadInstFromMem(OPNIFile *file, void *mem, size_t length)
__CPROVER_requires(SPEC_MAGIC_PTR_OK(opni_magic1, SPEC_OPNI_MAGIC1) && SPEC_MAGIC_PTR_OK(opni_magic2, SPEC_OPNI_MAGIC2))
__CPROVER_requires(__CPROVER_is_fresh(file, sizeof(OPNIFile)))
__CPROVER_requires(length <= SPEC_MAX_OBJECT && (mem == NULL || __CPROVER_is_fresh(mem, length)))
__CPROVER_assigns(*file)
__CPROVER_ensures(__CPROVER_return_value == WOPN_ERR_OK || __CPROVER_return_value == WOPN_ERR_BAD_MAGIC ||
                  __CPROVER_return_value == WOPN_ERR_UNEXPECTED_ENDING || __CPROVER_return_value == WOPN_ERR_NEWER_VERSION ||
                  __CPROVER_return_value == WOPN_ERR_NULL_POINTER)
__CPROVER_ensures(mem == NULL ==> __CPROVER_return_value == WOPN_ERR_NULL_POINTER)
__CPROVER_ensures(mem != NULL && length < 11 ==> __CPROVER_return_value == WOPN_ERR_UNEXPECTED_ENDING)
__CPROVER_ensures(__CPROVER_return_value == WOPN_ERR_OK ==>
                  (file->version <= 2 && length >= (size_t)(11 + 1 + 65)))
__CPROVER_ensures(__CPROVER_return_value == WOPN_ERR_OK ==> file->inst.inst_flags == 0 && file->inst.midi_velocity_offset == 0 &&
                  file->inst.inst_name[31] == 0)
;


/* ---- spec: bank file --------------------------------------------------------------------------------- */
#define SPEC_MAX1(n) ((n) != 0 ? (n) : 1)

WOPNFile *WOPN_Init(uint16_t melodic_banks, uint16_t percussive_banks)
__CPROVER_assigns()
__CPROVER_ensures(__CPROVER_return_value == NULL ||
    (__CPROVER_is_fresh(__CPROVER_return_value, sizeof(WOPNFile)) &&
     __CPROVER_return_value->banks_count_melodic == SPEC_MAX1(melodic_banks) &&
     __CPROVER_return_value->banks_count_percussion == SPEC_MAX1(percussive_banks) &&
     __CPROVER_is_fresh(__CPROVER_return_value->banks_melodic, (size_t)SPEC_MAX1(melodic_banks) * sizeof(WOPNBank)) &&
     __CPROVER_is_fresh(__CPROVER_return_value->banks_percussive, (size_t)SPEC_MAX1(percussive_banks) * sizeof(WOPNBank)) &&
     __CPROVER_return_value->version == 0 && __CPROVER_return_value->lfo_freq == 0 &&
     __CPROVER_return_value->chip_type == 0 && __CPROVER_return_value->volume_model == 0))
;

#define SPEC_IS_LOAD_ERROR(e) ((e) == WOPN_ERR_BAD_MAGIC || (e) == WOPN_ERR_UNEXPECTED_ENDING || (e) == WOPN_ERR_NEWER_VERSION || \
                               (e) == WOPN_ERR_OUT_OF_MEMORY || (e) == WOPN_ERR_NULL_POINTER)

WOPNFile *WOPN_LoadBankFromMem(void *mem, size_t length, int *error)
__CPROVER_requires(SPEC_MAGIC_PTR_OK(wopn2_magic1, SPEC_WOPN_MAGIC1) && SPEC_MAGIC_PTR_OK(wopn2_magic2, SPEC_WOPN_MAGIC2))
/* no well-formedness assumption at all: any block of exactly `length` bytes */
__CPROVER_requires(mem == NULL || __CPROVER_is_fresh(mem, length))
__CPROVER_requires(error == NULL || __CPROVER_is_fresh(error, sizeof(int)))
__CPROVER_assigns(error != NULL : *error)
__CPROVER_ensures(__CPROVER_return_value == NULL ==> (error == NULL || SPEC_IS_LOAD_ERROR(*error)))
__CPROVER_ensures(mem == NULL ==> __CPROVER_return_value == NULL)
__CPROVER_ensures(__CPROVER_return_value != NULL ==>
    (__CPROVER_is_fresh(__CPROVER_return_value, sizeof(WOPNFile)) &&
     __CPROVER_return_value->version <= 2 && __CPROVER_return_value->lfo_freq <= 15 && __CPROVER_return_value->chip_type <= 1 &&
     __CPROVER_return_value->volume_model == 0 &&
     __CPROVER_return_value->banks_count_melodic >= 1 && __CPROVER_return_value->banks_count_percussion >= 1 &&
     __CPROVER_is_fresh(__CPROVER_return_value->banks_melodic, (size_t)__CPROVER_return_value->banks_count_melodic * sizeof(WOPNBank)) &&
     __CPROVER_is_fresh(__CPROVER_return_value->banks_percussive, (size_t)__CPROVER_return_value->banks_count_percussion * sizeof(WOPNBank))))
;


/* WOPN_Free at call sites inside the bank loader's error paths: frame-only summary (it releases the file the loader
 * itself allocated and touches nothing else).  Used with --replace-call-with-contract in the segment groups. */
void WOPN_Free(WOPNFile *file)
__CPROVER_requires(1)
__CPROVER_assigns()
__CPROVER_ensures(1);

/* size of a bank file as the saver lays it out: header (16 bytes, 18 with the version field of version >= 2),
 * 34 bytes of name/LSB/MSB per bank for version >= 2, 128 records of 65 (69 for version >= 2) bytes per bank */
#define SPEC_BANK_HDR(v) ((v) > 1 ? (size_t)18 : (size_t)16)
#define SPEC_BANK_NAMES(v, m, p) ((v) >= 2 ? (size_t)34 * ((size_t)(m) + (size_t)(p)) : (size_t)0)
#define SPEC_BANK_INS(v, n128) ((v) >= 2 ? (size_t)69 * (size_t)(n128) : (size_t)65 * (size_t)(n128))
#define SPEC_BANK_TOTAL(v, m, p) (SPEC_BANK_HDR(v) + SPEC_BANK_NAMES(v, m, p) + SPEC_BANK_INS(v, 128 * ((size_t)(m) + (size_t)(p))))

size_t WOPN_CalculateBankFileSize(WOPNFile *file, uint16_t version)
__CPROVER_requires(file == NULL || __CPROVER_is_fresh(file, sizeof(WOPNFile)))
__CPROVER_assigns()
/* the calculator always counts the 2-byte version field, so it reports 2 spare bytes for version 1: never less than
 * what the saver writes */
__CPROVER_ensures(file == NULL ==> __CPROVER_return_value == 0)
/* written in the association the code uses (sum of per-slot products), so that the query needs no distributivity */
__CPROVER_ensures(file != NULL ==> __CPROVER_return_value ==
                  (size_t)18 + (SPEC_VERSION_EFF(version) >= 2 ? (size_t)34 * file->banks_count_melodic + (size_t)34 * file->banks_count_percussion : (size_t)0) +
                  (SPEC_VERSION_EFF(version) >= 2 ? (size_t)(69 * 128) * file->banks_count_melodic + (size_t)(69 * 128) * file->banks_count_percussion
                                                   : (size_t)(65 * 128) * file->banks_count_melodic + (size_t)(65 * 128) * file->banks_count_percussion));

#endif
