/* Contracts for the instrument converters of opnmidi_cvt.hpp (C02 part 2, basis of C16's "an instrument read back equals
 * the instrument last written"): every field is copied, both voices get the same timbre, nothing but *dst is written. */
#ifndef CVT_CONTRACTS_H
#define CVT_CONTRACTS_H
#include "verif_types.h"
#include "wopn/wopn_file.h"

#define SPEC_OPS_EQ(m, g, l) ((m)->op[0].OPS[l].data[0] == (g)->operators[l].dtfm_30 && (m)->op[0].OPS[l].data[1] == (g)->operators[l].level_40 && \
    (m)->op[0].OPS[l].data[2] == (g)->operators[l].rsatk_50 && (m)->op[0].OPS[l].data[3] == (g)->operators[l].amdecay1_60 && \
    (m)->op[0].OPS[l].data[4] == (g)->operators[l].decay2_70 && (m)->op[0].OPS[l].data[5] == (g)->operators[l].susrel_80 && (m)->op[0].OPS[l].data[6] == (g)->operators[l].ssgeg_90)
/* the relation "player instrument m carries exactly the generic instrument g" */
#define SPEC_CARRIES(m, g) ((m)->drumTone == (g)->percussion_key_number && (m)->flags == (g)->inst_flags && (m)->op[0].fbalg == (g)->fbalg && \
    (m)->op[0].lfosens == (g)->lfosens && (m)->op[0].noteOffset == (g)->note_offset && (m)->midiVelocityOffset == (g)->midi_velocity_offset && \
    SPEC_OPS_EQ(m, g, 0) && SPEC_OPS_EQ(m, g, 1) && SPEC_OPS_EQ(m, g, 2) && SPEC_OPS_EQ(m, g, 3) && \
    (m)->soundKeyOnMs == (g)->delay_on_ms && (m)->soundKeyOffMs == (g)->delay_off_ms)

#define TO_FMINS_CONTRACT(T) \
    __CPROVER_requires(__CPROVER_is_fresh(ins__p, sizeof(OpnInstMeta)) && __CPROVER_is_fresh(in__p, sizeof(T))) \
    __CPROVER_assigns(*ins__p) \
    __CPROVER_ensures(SPEC_CARRIES(ins__p, in__p) && spec_OpnTimbre_eq(&ins__p->op[1], &ins__p->op[0]) && ins__p->voice2_fine_tune == 0.0)
#define FROM_FMINS_CONTRACT(T) \
    __CPROVER_requires(__CPROVER_is_fresh(ins__p, sizeof(T)) && __CPROVER_is_fresh(in__p, sizeof(OpnInstMeta))) \
    __CPROVER_assigns(*ins__p) \
    __CPROVER_ensures(SPEC_CARRIES(in__p, ins__p))
static void cvt_generic_to_FMIns_WOPNInstrument(OpnInstMeta *ins__p, const WOPNInstrument *in__p) TO_FMINS_CONTRACT(WOPNInstrument);
static void cvt_generic_to_FMIns_OPN2_Instrument(OpnInstMeta *ins__p, const OPN2_Instrument *in__p) TO_FMINS_CONTRACT(OPN2_Instrument);
static void cvt_FMIns_to_generic_OPN2_Instrument(OPN2_Instrument *ins__p, const OpnInstMeta *in__p) FROM_FMINS_CONTRACT(OPN2_Instrument)
    __CPROVER_ensures(ins__p->version == __CPROVER_old(ins__p->version));
#endif
