/* (C10, caller side of OPN2::noteOn) the Upd_Pitch statement range of OPNMIDIplay::noteUpdate, from
 * `if(props_mask & Upd_Pitch)` to the end of the per-voice loop body: the tone handed to the chip is
 *     key tone (currentTone) + bend * bend range + the voice's note offset [+ vibrato * depth * sin(position)] + second-voice fine tune,
 * a note held only by the pedal is not re-pitched, and exactly one noteOn goes to the voice's own chip channel. */
#ifndef PITCH_CONTRACTS_H
#define PITCH_CONTRACTS_H
#include "verif_types.h"
#define max(a, b) ((a) > (b) ? (a) : (b))   /* std::max of the original (rule R1 strips std::) */
extern MIDIchannel g_pitch_chan[16]; extern LocationData g_user; extern bool g_has_user;
extern unsigned g_noteon_calls, g_hook_calls, g_sin_calls; extern size_t g_noteon_c; extern double g_noteon_tone, g_sin_arg, g_sin_ret, g_hook_bend; extern int g_hook_chan, g_hook_note;
#define PITCH_UPD 0x8   /* Upd_Pitch; the harness asserts that this is the extracted enumerator */
#define OpnInstMeta_Flag_Pseudo8op_VALUE 0x01   /* OpnInstMeta::Flag_Pseudo8op; asserted likewise */

/* the channel's user entry for this note, if any (rule R7: iterator -> cell pointer; body over a ghost) */
LocationData *find_user_c(uint16_t c);
/* recording stubs (bodies in the harness): the chip-side noteOn and libm sin (any value in [-1, 1]) */
void noteOn_record(size_t c, double tone);
double sin(double x);
void hook_record(void *ud, int chan, int note, int ins, int vol, double bend);

#define SPEC_FIN(x, B) ((x) >= -(B) && (x) <= (B))
#define SPEC_SUSTAINED (g_has_user && g_user.sustained != 0)                  /* Sustain_None == 0: asserted by the harness */
#define SPEC_VIB_LEVEL ((uint8_t)max((uint8_t)max(g_pitch_chan[midCh].vibrato, g_pitch_chan[midCh].aftertouch), info__p->vibrato))
#define SPEC_VIB_ON    (SPEC_VIB_LEVEL != 0 && (!g_has_user || g_user.vibdelay_us >= g_pitch_chan[midCh].vibdelay_us))
#define SPEC_SECOND_VOICE ((ains__p->flags & OpnInstMeta_Flag_Pseudo8op_VALUE) != 0 && spec_OpnTimbre_eq(&ins__p->ains, &ains__p->op[1]))
#define SPEC_MIDIBEND  ((double)g_pitch_chan[midCh].bend * g_pitch_chan[midCh].bendsense)
void noteUpdate_pitch(size_t midCh, uint16_t c, unsigned props_mask, MIDIchannel *m_midiChannels, const Phys *ins__p, const OpnInstMeta *ains__p, NoteInfo *info__p,
                      double currentTone, int16_t noteTone, size_t midiins, uint8_t vol, MIDIEventHooks *hooks__p)
/* the range uses midCh only to select the channel's entry: one group per constant index (a symbolic index makes the code's and
 * the specification's reads of the same field syntactically different and CBMC then has to prove two floating-point circuits equal) */
__CPROVER_requires(midCh == PITCH_CH && m_midiChannels == g_pitch_chan && __CPROVER_is_fresh(ins__p, sizeof(*ins__p)) && __CPROVER_is_fresh(ains__p, sizeof(*ains__p)) &&
                   __CPROVER_is_fresh(info__p, sizeof(*info__p)) && __CPROVER_is_fresh(hooks__p, sizeof(*hooks__p)) && hooks__p->onNote == NULL && midiins <= 0xFFFF)   /* no note hook installed (debug facility, not part of the property) */
/* finite operands (what the controller handlers and the bank loader produce) */
__CPROVER_requires(SPEC_FIN(currentTone, 1.0e6) && SPEC_FIN(g_pitch_chan[midCh].bendsense, 1.0e3) && SPEC_FIN(g_pitch_chan[midCh].vibdepth, 1.0e3) && SPEC_FIN(ains__p->voice2_fine_tune, 1.0e6) && SPEC_FIN(g_pitch_chan[midCh].vibpos, 1.0e12) &&
                   g_pitch_chan[midCh].bend >= -8192 && g_pitch_chan[midCh].bend <= 8191 && g_noteon_calls == 0 && g_sin_calls == 0 && g_hook_calls == 0)
__CPROVER_assigns(g_noteon_calls, g_noteon_c, g_noteon_tone, g_sin_calls, g_sin_arg, g_sin_ret, g_hook_calls, g_hook_bend, g_hook_chan, g_hook_note)
/* no pitch update requested, or the note is only held by the pedal: the chip is left alone */
__CPROVER_ensures(((props_mask & PITCH_UPD) == 0 || SPEC_SUSTAINED) ==> (g_noteon_calls == 0 && g_hook_calls == 0))
/* otherwise exactly one frequency write, to the voice's own chip channel ... */
__CPROVER_ensures(((props_mask & PITCH_UPD) != 0 && !SPEC_SUSTAINED) ==> (g_noteon_calls == 1 && g_noteon_c == c && g_sin_calls == (SPEC_VIB_ON ? 1 : 0)))
/* ... the tone formula  key tone + (bend * range + note offset [+ vibrato * depth * sin]) + second-voice fine tune  is checked by native
 * execution of this same extracted text on a grid (harness/c10_pitch_sweep.c, BOUNDED, labelled so): CBMC does not finish the
 * equality of the two floating-point evaluations (measured: > 10 min for the three-operand sum, constant channel index). */
/* what CBMC does prove about the tone: with no bend, no offset, no vibrato and no second voice it is the key tone itself */
__CPROVER_ensures(((props_mask & PITCH_UPD) != 0 && !SPEC_SUSTAINED && !SPEC_VIB_ON && !SPEC_SECOND_VOICE && g_pitch_chan[midCh].bend == 0 && ins__p->ains.noteOffset == 0) ==> g_noteon_tone == currentTone)
/* ... and the vibrato phase handed to sin() is the channel's */
__CPROVER_ensures(((props_mask & PITCH_UPD) != 0 && !SPEC_SUSTAINED && SPEC_VIB_ON) ==> g_sin_arg == g_pitch_chan[midCh].vibpos);
#endif
