/* Contracts for the SysEx handlers of OPNMIDIplay (C19), written from the property statement.
 * Attached to forward declarations; the definitions are the extracted real bodies (extracted.c). */
#ifndef SYSEX_CONTRACTS_H
#define SYSEX_CONTRACTS_H
#include "env_play.h"

/* callees that are not under proof here: assumed contracts (listed as trusted in the evidence) */
void realTime_ResetState(void)
__CPROVER_requires(g_play.m_midiChannels != NULL)
__CPROVER_assigns(g_reset_calls, g_midiChannels_storage)
__CPROVER_ensures(g_reset_calls == __CPROVER_old(g_reset_calls) + 1);

void noteUpdateAll(size_t midCh, unsigned props_mask)
__CPROVER_requires(midCh < g_play.m_midiChannels_size)      /* a wrong guard in a caller fails here */
__CPROVER_assigns(g_update_calls)
__CPROVER_ensures(g_update_calls == __CPROVER_old(g_update_calls) + 1);

/* ---------------- specification of "well-formed, correctly addressed" (statement of C19) --------------- */
typedef enum { SX_NONE = 0, SX_GM_ON, SX_GM_OFF, SX_MASTER_VOLUME, SX_GS_SYSTEM_MODE, SX_GS_MODE, SX_GS_DRUM_PART, SX_XG_ON } sysex_kind;

extern uint8_t in_msg[64];   /* ghost copy of the message bytes, so that a counterexample names its input */
static bool spec_bytes_named(const uint8_t *msg, size_t size)
{
    bool ok = true;
    for(size_t k = 0; k < 64; k++)
        ok = ok && (k >= size || msg[k] == in_msg[k]);
    return ok;
}

/* Roland checksum over address and data bytes msg[5..8] */
#define SPEC_ROLAND_SUM_OK(m) ((((unsigned)((m)[5] & 0x7F) + ((m)[6] & 0x7F) + ((m)[7] & 0x7F) + ((m)[8] & 0x7F) + ((m)[9] & 0x7F)) & 127u) == 0u)

/* NECESSARY conditions: a message may take effect only if this is not SX_NONE.  Addressing is the statement's
 * "this device id or the broadcast id"; exact lengths; Roland checksum. (7-bit payload bytes are compared
 * after masking, as a receiver that ignores the status bit does.) */
static sysex_kind spec_sysex_kind(const uint8_t *m, size_t size, uint8_t devid)
{
    if(size < 6 || m[0] != 0xF0 || m[size - 1] != 0xF7)
        return SX_NONE;
    unsigned man = m[1], dev = m[2];
    if(man == 0x7E || man == 0x7F)
    {
        if(!(dev == 0x7F || dev == devid)) return SX_NONE;
        unsigned s1 = m[3] & 0x7F, s2 = m[4] & 0x7F;
        if(man == 0x7E && s1 == 0x09 && s2 == 0x01 && size == 6) return SX_GM_ON;
        if(man == 0x7E && s1 == 0x09 && s2 == 0x02 && size == 6) return SX_GM_OFF;
        if(man == 0x7F && s1 == 0x04 && s2 == 0x01 && size == 8) return SX_MASTER_VOLUME;
        return SX_NONE;
    }
    if(man == 0x41)
    {
        if(!(dev == 0x7F || (dev & 0x0F) == devid)) return SX_NONE;
        if(size != 11) return SX_NONE;
        if((m[3] & 0x7F) != 0x42 || (m[4] & 0x7F) != 0x12) return SX_NONE;
        if(!SPEC_ROLAND_SUM_OK(m)) return SX_NONE;
        unsigned a0 = m[5] & 0x7F, a1 = m[6] & 0x7F, a2 = m[7] & 0x7F;
        if(a0 == 0x00 && a1 == 0x00 && a2 == 0x7F) return SX_GS_SYSTEM_MODE;
        if(a0 == 0x40 && a1 == 0x00 && a2 == 0x7F) return SX_GS_MODE;
        if(a0 == 0x40 && (a1 & 0x70) == 0x10 && a2 == 0x15) return SX_GS_DRUM_PART;
        return SX_NONE;
    }
    if(man == 0x43)
    {
        if(!(dev == 0x7F || (dev & 0x0F) == devid)) return SX_NONE;
        if(size != 9) return SX_NONE;
        if((m[3] & 0x7F) != 0x4C) return SX_NONE;
        if((m[4] & 0x7F) == 0x00 && (m[5] & 0x7F) == 0x00 && (m[6] & 0x7F) == 0x7E) return SX_XG_ON;
        return SX_NONE;
    }
    return SX_NONE;
}

/* SUFFICIENT conditions: the documented messages, clean 7-bit payload, addressed to the instance's own id
 * (Roland/Yamaha: device byte 0x10|id).  These must be accepted. */
static bool spec_sysex_strict(const uint8_t *m, size_t size, uint8_t devid)
{
    sysex_kind k = spec_sysex_kind(m, size, devid);
    if(k == SX_NONE || devid > 0x0F) return false;
    bool clean = true;
    for(size_t i = 1; i + 1 < 64; i++)
        clean = clean && (i + 1 >= size || m[i] < 0x80);
    if(!clean) return false;
    if(k == SX_GM_ON || k == SX_GM_OFF || k == SX_MASTER_VOLUME) return m[2] == devid || m[2] == 0x7F;
    return m[2] == (0x10 | devid);
}

/* ghost snapshot of the whole channel table (tied to the pre-state by a precondition).  The comparison walks the
 * table with constant indices (a symbolic channel index made the array reasoning intractable - measured) and uses
 * the typed field-wise equality generated from the extracted struct (verif_types.h). */
extern MIDIchannel g_table_before[ENV_N_MIDI_CHANNELS];
static bool spec_table_same_except_drum_flag_of(size_t except_ch)   /* ENV_N_MIDI_CHANNELS = no exception */
{
    bool ok = true;
    for(size_t k = 0; k < ENV_N_MIDI_CHANNELS; k++)
    {
        MIDIchannel t = g_table_before[k];
        if(k == except_ch)
            t.is_xg_percussion = g_midiChannels_storage[k].is_xg_percussion;
        ok = ok && spec_MIDIchannel_eq(&g_midiChannels_storage[k], &t);
    }
    return ok;
}
#define SPEC_TABLE_SAME spec_table_same_except_drum_flag_of(ENV_N_MIDI_CHANNELS)

static const uint8_t spec_gs_part_to_channel[16] = { 9, 0, 1, 2, 3, 4, 5, 6, 7, 8, 10, 11, 12, 13, 14, 15 };

#define SX_KIND spec_sysex_kind(msg, size, __CPROVER_old(g_play.m_sysExDeviceId))
#define SX_IS_MODE_MSG(k) ((k) == SX_GM_ON || (k) == SX_GM_OFF || (k) == SX_GS_SYSTEM_MODE || (k) == SX_GS_MODE || (k) == SX_XG_ON)

bool realTime_SysEx(const uint8_t *msg, size_t size)
__CPROVER_requires(size <= 64 && __CPROVER_is_fresh(msg, size) && spec_bytes_named(msg, size))
__CPROVER_requires(ENV_CHANNELS_OK && ENV_SYNTH_OK && ENV_HOOKS_OK)
/* ghost: g_ch ranges over all channels, g_chan_before is the pre-state of that channel */
__CPROVER_requires(SPEC_TABLE_SAME)
__CPROVER_assigns(g_play.m_synthMode, g_reset_calls, g_update_calls, g_midiChannels_storage)
__CPROVER_assigns(g_play.m_synth != NULL : g_play.m_synth->m_masterVolume)
/* only if: accepted => well-formed, addressed, exact length, checksum */
__CPROVER_ensures(__CPROVER_return_value ==> SX_KIND != SX_NONE)
/* if: the documented messages addressed to this instance are accepted */
__CPROVER_ensures(spec_sysex_strict(msg, size, __CPROVER_old(g_play.m_sysExDeviceId)) ==> __CPROVER_return_value)
/* rejected => mode, master volume, every field of every channel's state, notes (no reset, no update) untouched */
__CPROVER_ensures(!__CPROVER_return_value ==>
    (g_play.m_synthMode == __CPROVER_old(g_play.m_synthMode) && g_reset_calls == __CPROVER_old(g_reset_calls) &&
     g_update_calls == __CPROVER_old(g_update_calls) &&
     SPEC_TABLE_SAME))
__CPROVER_ensures(!__CPROVER_return_value && g_play.m_synth != NULL ==> g_play.m_synth->m_masterVolume == __CPROVER_old(g_play.m_synth->m_masterVolume))
/* accepted => documented effect */
__CPROVER_ensures(__CPROVER_return_value && SX_KIND == SX_GM_ON ==> g_play.m_synthMode == Mode_GM)
__CPROVER_ensures(__CPROVER_return_value && (SX_KIND == SX_GS_MODE || SX_KIND == SX_GS_SYSTEM_MODE) ==> g_play.m_synthMode == Mode_GS)
__CPROVER_ensures(__CPROVER_return_value && SX_KIND == SX_XG_ON ==> g_play.m_synthMode == Mode_XG)
__CPROVER_ensures(__CPROVER_return_value && SX_IS_MODE_MSG(SX_KIND) ==> g_reset_calls == __CPROVER_old(g_reset_calls) + 1)
__CPROVER_ensures(__CPROVER_return_value && !SX_IS_MODE_MSG(SX_KIND) ==>
                  (g_reset_calls == __CPROVER_old(g_reset_calls) && g_play.m_synthMode == __CPROVER_old(g_play.m_synthMode)))
__CPROVER_ensures(__CPROVER_return_value && SX_KIND == SX_MASTER_VOLUME && g_play.m_synth != NULL ==>
                  g_play.m_synth->m_masterVolume == (msg[6] & 0x7F))
__CPROVER_ensures(__CPROVER_return_value && SX_KIND == SX_MASTER_VOLUME ==>
                  SPEC_TABLE_SAME)
__CPROVER_ensures(__CPROVER_return_value && SX_KIND == SX_GS_DRUM_PART ==>
                  g_play.m_midiChannels[spec_gs_part_to_channel[msg[6] & 0x0F]].is_xg_percussion == ((msg[8] & 0x7F) == 1 || (msg[8] & 0x7F) == 2))
/* ... and the drum-part message changes that one flag only */
__CPROVER_ensures(__CPROVER_return_value && SX_KIND == SX_GS_DRUM_PART ==>
                  spec_table_same_except_drum_flag_of(spec_gs_part_to_channel[msg[6] & 0x0F]))
;
#endif
