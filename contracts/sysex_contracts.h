/* Contracts for the SysEx handlers of OPNMIDIplay (C19), written from the property statement.
 * Attached to forward declarations; the definitions are the extracted real bodies (extracted.c). */
#ifndef SYSEX_CONTRACTS_H
#define SYSEX_CONTRACTS_H
#include "env_play.h"

/* callees that are not under proof here: assumed contracts (listed as trusted in the evidence) */
void realTime_ResetState(void)
__CPROVER_requires(g_play.m_midiChannels != NULL)
__CPROVER_assigns(g_reset_calls, g_midiChannels_storage)
__CPROVER_ensures(g_reset_calls == __CPROVER_old(g_reset_calls) + 1);

void noteUpdateAll(size_t midCh, unsigned props_mask)
__CPROVER_requires(midCh < g_play.m_midiChannels_size)      /* a wrong guard in a caller fails here */
__CPROVER_assigns(g_update_calls)
__CPROVER_ensures(g_update_calls == __CPROVER_old(g_update_calls) + 1);

#include "sysex_spec.h"
extern uint8_t in_msg[64];   /* ghost copy of the message bytes, so that a counterexample names its input */
static bool spec_bytes_named(const uint8_t *msg, size_t size)
{
    bool ok = true;
    for(size_t k = 0; k < 64; k++)
        ok = ok && (k >= size || msg[k] == in_msg[k]);
    return ok;
}

/* "No channel state changed": ghost g_chan_before is the pre-state of channel SPEC_CH (tied by a precondition) and the
 * clause says channel SPEC_CH still equals it, by the typed field-wise equality generated from the extracted struct.
 * SPEC_CH is a compile-time constant; the obligation group is instantiated once for every channel of the table
 * (a symbolic channel index, and also one query over all 16 channels, made CBMC's array reasoning intractable -
 * measured: 1 channel 20 s, 4 channels 115 s, 16 channels no answer). */
#ifdef SPEC_CH
extern MIDIchannel g_chan_before;
#define SPEC_CHAN_SAME spec_MIDIchannel_eq(&g_midiChannels_storage[SPEC_CH], &g_chan_before)
static bool spec_chan_same_but_drum_flag(void)
{
    MIDIchannel t = g_chan_before;
    t.is_xg_percussion = g_midiChannels_storage[SPEC_CH].is_xg_percussion;
    return spec_MIDIchannel_eq(&g_midiChannels_storage[SPEC_CH], &t);
}
#endif

static const uint8_t spec_gs_part_to_channel[16] = { 9, 0, 1, 2, 3, 4, 5, 6, 7, 8, 10, 11, 12, 13, 14, 15 };

#define SX_KIND spec_sysex_kind(msg, size, __CPROVER_old(g_play.m_sysExDeviceId))
#define SX_IS_MODE_MSG(k) ((k) == SX_GM_ON || (k) == SX_GM_OFF || (k) == SX_GS_SYSTEM_MODE || (k) == SX_GS_MODE || (k) == SX_XG_ON)

bool realTime_SysEx(const uint8_t *msg, size_t size)
__CPROVER_requires(size <= 64 && __CPROVER_is_fresh(msg, size) && spec_bytes_named(msg, size))
__CPROVER_requires(ENV_CHANNELS_OK && ENV_SYNTH_OK && ENV_HOOKS_OK)
__CPROVER_assigns(g_play.m_synthMode, g_reset_calls, g_update_calls, g_midiChannels_storage)
__CPROVER_assigns(g_synth.m_masterVolume)
#ifndef SPEC_CH
#if SPEC_PART == 1
/* only if: accepted => well-formed, addressed, exact length, checksum */
__CPROVER_ensures(__CPROVER_return_value ==> SX_KIND != SX_NONE)
/* if: the documented messages addressed to this instance are accepted */
__CPROVER_ensures(spec_sysex_strict(msg, size, __CPROVER_old(g_play.m_sysExDeviceId)) ==> __CPROVER_return_value)
#elif SPEC_PART == 2
/* rejected => mode, master volume, notes (no reset, no update of any channel) untouched; channel state: SPEC_CH groups */
__CPROVER_ensures(!__CPROVER_return_value ==>
    (g_play.m_synthMode == __CPROVER_old(g_play.m_synthMode) && g_reset_calls == __CPROVER_old(g_reset_calls) &&
     g_update_calls == __CPROVER_old(g_update_calls)))
/* (m_synth is NULL or &g_synth by precondition: the synth object is named directly) */
__CPROVER_ensures(!__CPROVER_return_value ==> g_synth.m_masterVolume == __CPROVER_old(g_synth.m_masterVolume))
#elif SPEC_PART == 3 || SPEC_PART == 4
/* accepted => documented effect */
#if SPEC_PART == 3
__CPROVER_ensures(__CPROVER_return_value && SX_KIND == SX_GM_ON ==> g_play.m_synthMode == Mode_GM)
__CPROVER_ensures(__CPROVER_return_value && (SX_KIND == SX_GS_MODE || SX_KIND == SX_GS_SYSTEM_MODE) ==> g_play.m_synthMode == Mode_GS)
__CPROVER_ensures(__CPROVER_return_value && SX_KIND == SX_XG_ON ==> g_play.m_synthMode == Mode_XG)
__CPROVER_ensures(__CPROVER_return_value && SX_IS_MODE_MSG(SX_KIND) ==> g_reset_calls == __CPROVER_old(g_reset_calls) + 1)
__CPROVER_ensures(__CPROVER_return_value && !SX_IS_MODE_MSG(SX_KIND) ==>
                  (g_reset_calls == __CPROVER_old(g_reset_calls) && g_play.m_synthMode == __CPROVER_old(g_play.m_synthMode)))
#endif
#if SPEC_PART == 4
__CPROVER_ensures(__CPROVER_return_value && SX_KIND == SX_MASTER_VOLUME && g_play.m_synth != NULL ==>
                  g_synth.m_masterVolume == (msg[6] & 0x7F))
__CPROVER_ensures(__CPROVER_return_value && SX_KIND != SX_MASTER_VOLUME ==> g_synth.m_masterVolume == __CPROVER_old(g_synth.m_masterVolume))
#endif
#endif
#else
/* channel SPEC_CH: rejected => every field unchanged; master volume => unchanged; drum-part => at most its own flag */
__CPROVER_requires(SPEC_CHAN_SAME)
__CPROVER_ensures(!__CPROVER_return_value ==> SPEC_CHAN_SAME)
__CPROVER_ensures(__CPROVER_return_value && SX_KIND == SX_MASTER_VOLUME ==> SPEC_CHAN_SAME)
__CPROVER_ensures(__CPROVER_return_value && SX_KIND == SX_GS_DRUM_PART ==>
                  (SPEC_CH == spec_gs_part_to_channel[msg[6] & 0x0F] ? spec_chan_same_but_drum_flag() : SPEC_CHAN_SAME))
/* drum-part message addressed to the part that maps to this channel sets this channel's flag from the data byte */
__CPROVER_ensures(__CPROVER_return_value && SX_KIND == SX_GS_DRUM_PART && SPEC_CH == spec_gs_part_to_channel[msg[6] & 0x0F] ==>
                  g_midiChannels_storage[SPEC_CH].is_xg_percussion == ((msg[8] & 0x7F) == 1 || (msg[8] & 0x7F) == 2))
#endif
;
#endif
