/* Contracts and loop contracts for the CopySamplesRaw<Dst> / CopySamplesTransformed<Dst,Ret> instantiations (C13:
 * "exactly the reported number of samples is stored at left/right + i*sampleOffset and no other byte of the caller's
 * memory changes").  One group = one instantiation x one layout.  Ghosts (set by the harness before the call):
 *   g_g              one frame index; g_expL/g_expR the value that frame must hold afterwards
 *   g_bL/g_bR        one byte index of each caller buffer that belongs to no container of the call; g_oldL/g_oldR its value
 *   g_qL/g_qR        the frame whose gap that byte lies in (when it lies in a gap); g_last the last frame index
 *   g_P_*            the products <index> * stride of those ghost indices
 * The groups define COPY_FN, COPY_DST, COPY_RET, COPY_RAW (0/1) and COPY_INTERLEAVED (0/1).
 *
 * Rule R14 (multiplication by contract): the address product `(i * sampleOffset)` of the loop body is outlined into
 * verif_mul(i, sampleOffset), whose body is `return a * s;`.  At the call the product is known through verif_mul's
 * contract (the product itself plus its order relative to the ghost products); that contract is discharged on the body in
 * its own group by the SMT back end with integer translation (SAT cannot prove a < b ==> a*s + s <= b*s; measured: no
 * answer in 5 min on any SAT back end, 1 s with cvc5 --solve-bv-as-int). */
#ifndef COPY_CONTRACTS_H
#define COPY_CONTRACTS_H
#include "verif_types.h"
#include "opnmidi_verif_contracts.h"   /* VERIF_LOOP(id) -> VERIF_LOOP_<id> */
extern OPN2_UInt8 *g_bufL, *g_bufR; extern size_t g_szL, g_szR, g_offL, g_offR;
extern size_t g_g; extern COPY_DST g_expL, g_expR;
extern size_t g_bL, g_bR; extern OPN2_UInt8 g_oldL, g_oldR;
extern const int32_t *g_src;
extern size_t g_frames, g_qL, g_qR, g_last, g_P_g, g_P_qL, g_P_qR, g_P_last; extern unsigned g_stride;
#ifndef COPY_SIZE_BITS
#define COPY_SIZE_BITS 42   /* caller buffers up to 4 TiB */
#endif
#define COPY_MAX_FRAMES 512          /* what one period hands over (SendStereoAudio: in_size <= 512) */
#define COPY_SLOT_L_G ((COPY_DST *)(g_bufL + g_offL + g_P_g))
#define COPY_SLOT_R_G ((COPY_DST *)(g_bufR + g_offR + g_P_g))

/* order of the product r = a*s relative to a ghost product Pk = k*s (facts of multiplication by a positive stride) */
#define SPEC_MONO(r, a, s, k, Pk) (((k) < (a) ==> (Pk) + (s) <= (r)) && ((a) < (k) ==> (r) + (s) <= (Pk)) && ((a) == (k) ==> (r) == (Pk)))
#define SPEC_GHOST_PRODUCTS(s) (g_g < COPY_MAX_FRAMES && g_qL < COPY_MAX_FRAMES && g_qR < COPY_MAX_FRAMES && g_last < COPY_MAX_FRAMES && \
    g_P_g == g_g * (size_t)(s) && g_P_qL == g_qL * (size_t)(s) && g_P_qR == g_qR * (size_t)(s) && g_P_last == g_last * (size_t)(s))
/* g_products_ok is a ghost boolean that both harnesses define as SPEC_GHOST_PRODUCTS(g_stride) (one macro, SPEC_DEFINE_GHOSTS) */
extern _Bool g_products_ok;
#define SPEC_PMAX ((size_t)(COPY_MAX_FRAMES - 1) << 32)
/* consequences of g_products_ok (discharged in the lemma group): no ghost product wraps around; products up to the last frame's are ordered */
#define SPEC_GHOST_BOUNDS (g_P_g <= SPEC_PMAX && g_P_qL <= SPEC_PMAX && g_P_qR <= SPEC_PMAX && g_P_last <= SPEC_PMAX && \
    (g_g <= g_last ==> g_P_g <= g_P_last) && (g_qL <= g_last ==> g_P_qL <= g_P_last) && (g_qR <= g_last ==> g_P_qR <= g_P_last))
#define SPEC_DEFINE_GHOSTS() (g_products_ok = SPEC_GHOST_PRODUCTS(g_stride))
size_t verif_mul(size_t a, unsigned s)
__CPROVER_requires(a < COPY_MAX_FRAMES && s == g_stride && g_products_ok)
__CPROVER_assigns()
/* the product, stated relative to the ghost indices: equal to the ghost product of the same index, at least one stride away
 * from the ghost product of any other index, and inside the range of products (no wrap-around) */
__CPROVER_ensures(__CPROVER_return_value <= SPEC_PMAX)
__CPROVER_ensures(SPEC_MONO(__CPROVER_return_value, a, (size_t)s, g_g, g_P_g) && SPEC_MONO(__CPROVER_return_value, a, (size_t)s, g_qL, g_P_qL) &&
                  SPEC_MONO(__CPROVER_return_value, a, (size_t)s, g_qR, g_P_qR) && SPEC_MONO(__CPROVER_return_value, a, (size_t)s, g_last, g_P_last));

#if COPY_RAW
#define COPY_XFORM_PARAM
#else
#define COPY_XFORM_PARAM , COPY_RET (*transform)(int32_t)
#endif

/* COPY_CHECK selects which ghost facts a group carries through the loop (all of them by default; the interleaved layout, where
 * both channels live in one object, is split three ways because the combined query is slow: 1 = left value, 2 = right value,
 * 4 = guard bytes) */
#ifndef COPY_CHECK
#define COPY_CHECK 7
#endif
#define SPEC_VALUE_L(n) (!(COPY_CHECK & 1) || (g_g < (n) ==> *COPY_SLOT_L_G == g_expL))
#define SPEC_VALUE_R(n) (!(COPY_CHECK & 2) || (g_g < (n) ==> *COPY_SLOT_R_G == g_expR))
#define SPEC_GUARDS     (!(COPY_CHECK & 4) || (g_bufL[g_bL] == g_oldL && g_bufR[g_bR] == g_oldR))
#define COPY_LOOP_CONTRACT \
    __CPROVER_assigns(i, __CPROVER_object_whole(dstLeft), __CPROVER_object_whole(dstRight)) \
    __CPROVER_loop_invariant(i <= frameCount) \
    __CPROVER_loop_invariant(SPEC_VALUE_L(i) && SPEC_VALUE_R(i)) \
    __CPROVER_loop_invariant(SPEC_GUARDS) \
    __CPROVER_decreases(frameCount - i)
#define VERIF_LOOP_opnmidi_copy_raw COPY_LOOP_CONTRACT
#define VERIF_LOOP_opnmidi_copy_transformed COPY_LOOP_CONTRACT

void COPY_FN(OPN2_UInt8 *dstLeft, OPN2_UInt8 *dstRight, const int32_t *src, size_t frameCount, unsigned sampleOffset COPY_XFORM_PARAM)
/* the caller's side: both buffers hold every container of the call; containers do not overlap */
__CPROVER_requires(frameCount <= COPY_MAX_FRAMES && frameCount == g_frames && sampleOffset == g_stride && dstLeft == g_bufL + g_offL && dstRight == g_bufR + g_offR && src == g_src)
__CPROVER_requires(g_szL <= ((size_t)1 << COPY_SIZE_BITS) && g_szR <= ((size_t)1 << COPY_SIZE_BITS) && g_offL <= g_szL && g_offR <= g_szR)
__CPROVER_requires(g_products_ok && SPEC_GHOST_BOUNDS && g_g < COPY_MAX_FRAMES && g_qL < COPY_MAX_FRAMES && g_qR < COPY_MAX_FRAMES && (frameCount == 0 || g_last == frameCount - 1))
__CPROVER_requires(frameCount == 0 || (g_offL + g_P_last + sizeof(COPY_DST) <= g_szL && g_offR + g_P_last + sizeof(COPY_DST) <= g_szR))
__CPROVER_requires(sampleOffset >= (COPY_INTERLEAVED ? 2 : 1) * sizeof(COPY_DST))
__CPROVER_requires(g_bL < g_szL && g_bR < g_szR && g_bufL[g_bL] == g_oldL && g_bufR[g_bR] == g_oldR)
/* the ghost bytes lie in no container: in front of the first, in the gap behind container g_q*, or behind the last */
#define SPEC_OUTSIDE(b, off, q, Pq) ((b) < (off) || ((q) < frameCount && (b) >= (off) + (Pq) + (COPY_INTERLEAVED ? 2 : 1) * sizeof(COPY_DST) && (b) < (off) + (Pq) + sampleOffset) || \
                                     frameCount == 0 || (b) >= (off) + g_P_last + sampleOffset)
__CPROVER_requires(SPEC_OUTSIDE(g_bL, g_offL, g_qL, g_P_qL) && SPEC_OUTSIDE(g_bR, COPY_INTERLEAVED ? g_offL : g_offR, g_qR, g_P_qR))
__CPROVER_assigns(__CPROVER_object_whole(dstLeft), __CPROVER_object_whole(dstRight))
/* every frame below the count is stored at left/right + i*sampleOffset in a container of the instantiation's type ... */
__CPROVER_ensures(SPEC_VALUE_L(frameCount) && SPEC_VALUE_R(frameCount))
/* ... and no byte outside those containers changes (guard bytes before, between and behind) */
__CPROVER_ensures(SPEC_GUARDS);
#endif
