/* Contracts for OPN2::touchNote / noteOn / setPatch / setPan / noteOff (C11, C10, C02, C12), written from the
 * property statements.  Definitions are the extracted real bodies. */
#ifndef OPN2_CONTRACTS_H
#define OPN2_CONTRACTS_H
#include "env_opn2.h"

/* libm: CBMC's own log/sqrt models are coarse bands; replaced by stated contracts (assumptions, listed) */
double log(double x)
__CPROVER_requires(x >= 1108076.0 && x <= 260144641.0)                 /* 1108075 < volume <= 127^4 */
__CPROVER_assigns()
__CPROVER_ensures(__CPROVER_return_value >= 13.9182 && __CPROVER_return_value <= 19.3768);   /* ln(1108076)=13.91823.., ln(127^4)=19.37671.. */

double sqrt(double x)
__CPROVER_requires(x >= 0.0 && x <= 1.0)
__CPROVER_assigns()
__CPROVER_ensures(__CPROVER_return_value >= 0.0 && __CPROVER_return_value <= 1.0);

#include "opn2_spec.h"

void touchNote(size_t c, uint_fast32_t velocity, uint_fast32_t channelVolume, uint_fast32_t channelExpression, uint8_t brightness)
__CPROVER_requires(ENV_SYNTH_INV && c < g_synth.m_numChannels)
/* the 7-bit ranges are an obligation on every caller (C03) */
__CPROVER_requires(velocity <= 127 && channelVolume <= 127 && channelExpression <= 127 && g_synth.m_masterVolume <= 127 && brightness <= 127)
__CPROVER_requires(g_tap_n == 0)
__CPROVER_requires(in_alg == (g_insCache_storage[c].fbalg & 7) && in_op_level[0] == g_insCache_storage[c].OPS[0].data[1] &&
                   in_op_level[1] == g_insCache_storage[c].OPS[1].data[1] && in_op_level[2] == g_insCache_storage[c].OPS[2].data[1] &&
                   in_op_level[3] == g_insCache_storage[c].OPS[3].data[1])
/* frame: nothing but the four register writes */
__CPROVER_assigns(g_tap_n, __CPROVER_object_whole(g_tap))
/* exactly the four total-level registers of this channel, values inside the chip's 0..127 range */
__CPROVER_ensures(SPEC_TOUCHNOTE_POST_RANGE(c))
/* a zero volume, expression or master volume silences every carrier */
__CPROVER_ensures(SPEC_TOUCHNOTE_POST_SILENT(channelVolume, channelExpression))
/* modulators are left untouched unless modulator scaling or a reduced brightness is in force */
__CPROVER_ensures(SPEC_TOUCHNOTE_POST_MODS(brightness))
;
#endif
