/* Contracts for OPN2::touchNote / noteOn / setPatch / setPan / noteOff (C11, C10, C02, C12), written from the
 * property statements.  Definitions are the extracted real bodies. */
#ifndef OPN2_CONTRACTS_H
#define OPN2_CONTRACTS_H
#include "env_opn2.h"
#define ENV_N_MIDI_CHANNELS_VOL 16

/* libm: CBMC's own log/sqrt models are coarse bands; replaced by stated contracts (assumptions, listed) */
double log(double x)
__CPROVER_requires(x >= 1108076.0 && x <= 260144641.0)                 /* 1108075 < volume <= 127^4 */
__CPROVER_assigns()
__CPROVER_ensures(__CPROVER_return_value >= 13.9182 && __CPROVER_return_value <= 19.3768);   /* ln(1108076)=13.91823.., ln(127^4)=19.37671.. */

double sqrt(double x)
__CPROVER_requires(x >= 0.0 && x <= 1.0)
__CPROVER_assigns()
__CPROVER_ensures(__CPROVER_return_value >= 0.0 && __CPROVER_return_value <= 1.0);

#include "opn2_spec.h"

void touchNote(size_t c, uint_fast32_t velocity, uint_fast32_t channelVolume, uint_fast32_t channelExpression, uint8_t brightness)
__CPROVER_requires(ENV_SYNTH_INV && c < g_synth.m_numChannels)
/* the 7-bit ranges are an obligation on every caller (C03) */
__CPROVER_requires(velocity <= 127 && channelVolume <= 127 && channelExpression <= 127 && g_synth.m_masterVolume <= 127 && brightness <= 127)
__CPROVER_requires(g_tap_n == 0)
__CPROVER_requires(in_alg == (g_insCache_storage[c].fbalg & 7) && in_op_level[0] == g_insCache_storage[c].OPS[0].data[1] &&
                   in_op_level[1] == g_insCache_storage[c].OPS[1].data[1] && in_op_level[2] == g_insCache_storage[c].OPS[2].data[1] &&
                   in_op_level[3] == g_insCache_storage[c].OPS[3].data[1])
/* frame: nothing but the four register writes */
__CPROVER_assigns(g_tap_n, __CPROVER_object_whole(g_tap))
/* exactly the four total-level registers of this channel, values inside the chip's 0..127 range */
__CPROVER_ensures(SPEC_TOUCHNOTE_POST_RANGE(c))
/* a zero volume, expression or master volume silences every carrier */
__CPROVER_ensures(SPEC_TOUCHNOTE_POST_SILENT(channelVolume, channelExpression))
/* modulators are left untouched unless modulator scaling or a reduced brightness is in force */
__CPROVER_ensures(SPEC_TOUCHNOTE_POST_MODS(brightness))
;

/* ---------------------------------------------------------------- noteOn / noteOff / setPatch / setPan ------ */
/* exp() behind s_commonFreq: any double whatsoever may come back (finite, infinite, NaN) - no assumption on libm here */
double exp(double x)
__CPROVER_requires(1)
__CPROVER_assigns()
__CPROVER_ensures(1);

#define SPEC_OPREG_WRITE_OK(k, c, base) (g_tap[k].chip == SPEC_CH_CHIP(c) && g_tap[k].port == SPEC_CH_PORT(c) && !g_tap[k].is_pan && g_tap[k].addr == (base) + SPEC_CH_CC(c) + 4 * (k))
extern uint8_t in_dtmul[4];   /* ghost: the cached instrument's DT/MUL bytes */

/* C02: for EVERY double tone (no precondition on it, none on the cached instrument) the call returns (unwinding
 * assertions of both halving loops) and either writes nothing or exactly 4 operator DT/MUL registers, A4, A0 and key-on
 * of its own channel; C10 (structural): block/F-number fields in range, A4 before A0, key-on last, multiplier saturates */
void noteOn(size_t c, double tone)
__CPROVER_requires(ENV_SYNTH_INV && c < g_synth.m_numChannels && g_tap_n == 0)
__CPROVER_requires(in_dtmul[0] == g_insCache_storage[c].OPS[0].data[0] && in_dtmul[1] == g_insCache_storage[c].OPS[1].data[0] &&
                   in_dtmul[2] == g_insCache_storage[c].OPS[2].data[0] && in_dtmul[3] == g_insCache_storage[c].OPS[3].data[0])
__CPROVER_assigns(g_tap_n, __CPROVER_object_whole(g_tap))
__CPROVER_ensures(g_tap_n == 0 || g_tap_n == 7)
__CPROVER_ensures(g_tap_n == 7 ==> (SPEC_OPREG_WRITE_OK(0, c, 0x30) && SPEC_OPREG_WRITE_OK(1, c, 0x30) && SPEC_OPREG_WRITE_OK(2, c, 0x30) && SPEC_OPREG_WRITE_OK(3, c, 0x30)))
/* the detune nibble of every operator is the instrument's own (only the multiplier nibble may be raised) */
__CPROVER_ensures(g_tap_n == 7 ==> ((g_tap[0].val & 0xF0) == (in_dtmul[0] & 0xF0) && (g_tap[1].val & 0xF0) == (in_dtmul[1] & 0xF0) &&
                                    (g_tap[2].val & 0xF0) == (in_dtmul[2] & 0xF0) && (g_tap[3].val & 0xF0) == (in_dtmul[3] & 0xF0)))
/* frequency: A4 (block + F-number high bits, block <= 7) is written before A0 (F-number low), key-on of this channel last */
__CPROVER_ensures(g_tap_n == 7 ==> (g_tap[4].chip == SPEC_CH_CHIP(c) && g_tap[4].port == SPEC_CH_PORT(c) && g_tap[4].addr == 0xA4 + SPEC_CH_CC(c) && g_tap[4].val <= 0x3F &&
                                    g_tap[5].chip == SPEC_CH_CHIP(c) && g_tap[5].port == SPEC_CH_PORT(c) && g_tap[5].addr == 0xA0 + SPEC_CH_CC(c) &&
                                    g_tap[6].chip == SPEC_CH_CHIP(c) && g_tap[6].port == 0 && g_tap[6].addr == 0x28 &&
                                    g_tap[6].val == 0xF0 + ((c % 6) < 3 ? (c % 6) : (c % 6) + 1)))
;

void noteOff(size_t c)
__CPROVER_requires(ENV_SYNTH_INV && c < g_synth.m_numChannels && g_tap_n == 0)
__CPROVER_assigns(g_tap_n, __CPROVER_object_whole(g_tap))
__CPROVER_ensures(g_tap_n == 1 && g_tap[0].chip == SPEC_CH_CHIP(c) && g_tap[0].port == 0 && g_tap[0].addr == 0x28 && !g_tap[0].is_pan &&
                  g_tap[0].val == ((c % 6) < 3 ? (c % 6) : (c % 6) + 1));

/* ---------------------------------------------------------------- setPatch / setPan --------------------------- */
extern OpnTimbre in_timbre;      /* ghost copy of the instrument handed to setPatch */
static bool spec_setpatch_writes(size_t c)
{
    bool ok = g_tap_n == 30;
    /* 7 register groups 0x30,0x40,..,0x90 x 4 operators: value = the instrument's byte d of operator op */
    for(unsigned d = 0; d < 7; d++)
        for(unsigned op = 0; op < 4; op++)
        {
            const tap_rec *t = &g_tap[d * 4 + op];
            ok = ok && t->chip == SPEC_CH_CHIP(c) && t->port == SPEC_CH_PORT(c) && !t->is_pan &&
                 t->addr == 0x30 + 0x10 * d + 4 * op + SPEC_CH_CC(c) && t->val == in_timbre.OPS[op].data[d];
        }
    ok = ok && g_tap[28].chip == SPEC_CH_CHIP(c) && g_tap[28].port == SPEC_CH_PORT(c) && g_tap[28].addr == 0xB0 + SPEC_CH_CC(c) && g_tap[28].val == in_timbre.fbalg;
    ok = ok && g_tap[29].chip == SPEC_CH_CHIP(c) && g_tap[29].port == SPEC_CH_PORT(c) && g_tap[29].addr == 0xB4 + SPEC_CH_CC(c);
    return ok;
}
/* C12/C02: the timbre uploaded to the chip is the instrument given (7 bytes x 4 operators, feedback/algorithm), the
 * channel's cache holds it afterwards, panning bits of B4 are kept, LFO sensitivity bits come from the instrument */
void setPatch(size_t c, const OpnTimbre *instrument__p)
__CPROVER_requires(ENV_SYNTH_INV && c < g_synth.m_numChannels && g_tap_n == 0 && instrument__p == &in_timbre)
__CPROVER_assigns(g_tap_n, __CPROVER_object_whole(g_tap), g_insCache_storage, g_regLFOSens_storage)
__CPROVER_ensures(spec_setpatch_writes(c))
__CPROVER_ensures(g_regLFOSens_storage[c] == ((__CPROVER_old(g_regLFOSens_storage[c]) & 0xC0) | (in_timbre.lfosens & 0x3F)) && g_tap[29].val == g_regLFOSens_storage[c])
__CPROVER_ensures(g_insCache_storage[c].fbalg == in_timbre.fbalg && g_insCache_storage[c].lfosens == in_timbre.lfosens && g_insCache_storage[c].noteOffset == in_timbre.noteOffset &&
                  g_insCache_storage[c].OPS[0].data[1] == in_timbre.OPS[0].data[1] && g_insCache_storage[c].OPS[3].data[6] == in_timbre.OPS[3].data[6]);

/* setPan: one pan write and one B4 write for this channel only; hard panning keeps left for value < 80, right for value >= 48 */
void setPan(size_t c, uint8_t value)
__CPROVER_requires(ENV_SYNTH_INV && c < g_synth.m_numChannels && g_tap_n == 0)
__CPROVER_assigns(g_tap_n, __CPROVER_object_whole(g_tap), g_regLFOSens_storage)
__CPROVER_ensures(g_tap_n == 2 && g_tap[0].is_pan && g_tap[0].chip == SPEC_CH_CHIP(c) && g_tap[0].addr == c % 6 && g_tap[0].val == (g_synth.m_softPanning ? value : 64))
__CPROVER_ensures(!g_tap[1].is_pan && g_tap[1].chip == SPEC_CH_CHIP(c) && g_tap[1].port == SPEC_CH_PORT(c) && g_tap[1].addr == 0xB4 + SPEC_CH_CC(c) && g_tap[1].val == g_regLFOSens_storage[c])
__CPROVER_ensures((g_tap[1].val & 0x3F) == (g_insCache_storage[c].lfosens & 0x3F))
__CPROVER_ensures(g_synth.m_softPanning ? (g_tap[1].val & 0xC0) == 0xC0 : ((g_tap[1].val & 0x80) != 0) == (value < 80) && ((g_tap[1].val & 0x40) != 0) == (value >= 48));

/* ---------------------------------------------------------------- noteUpdate: the Upd_Volume statement range ------------ */
/* (C11, caller side) range of OPNMIDIplay::noteUpdate from `if(props_mask & Upd_Volume)` to `if(props_mask & Upd_Pitch)`:
 * with the channel inside the table invariant (volume, expression, brightness <= 127) and a 7-bit note velocity, touchNote is
 * called exactly once, with arguments inside its precondition, and the brightness handed over is the documented function of
 * CC74: percussion 127; full-range flag: CC74 itself; otherwise 2*CC74 below 64 and 127 from 64 on (non-decreasing in CC74). */
extern MIDIchannel g_vol_chan[1]; extern unsigned g_touch_calls; extern size_t g_touch_c; extern unsigned long g_touch_v, g_touch_cv, g_touch_ce; extern uint8_t g_touch_br;
extern bool g_fullrange;
void touchNote_record(size_t c, uint_fast32_t velocity, uint_fast32_t channelVolume, uint_fast32_t channelExpression, uint8_t brightness)
__CPROVER_requires(velocity <= 127 && channelVolume <= 127 && channelExpression <= 127 && brightness <= 127)     /* touchNote's own precondition (7-bit ranges) */
__CPROVER_assigns(g_touch_calls, g_touch_c, g_touch_v, g_touch_cv, g_touch_ce, g_touch_br)
__CPROVER_ensures(g_touch_calls == __CPROVER_old(g_touch_calls) + 1 && g_touch_c == c && g_touch_v == velocity && g_touch_cv == channelVolume && g_touch_ce == channelExpression && g_touch_br == brightness);
#define SPEC_BRIGHTNESS(midCh) ((((midCh) == 9) || g_vol_chan[0].is_xg_percussion) ? 127 : (g_fullrange ? g_vol_chan[0].brightness : (g_vol_chan[0].brightness >= 64 ? 127 : 2 * g_vol_chan[0].brightness)))
void noteUpdate_volume(size_t midCh, uint16_t c, uint8_t vol, unsigned props_mask, MIDIchannel *table, bool fullRange)
__CPROVER_requires(midCh < ENV_N_MIDI_CHANNELS_VOL && table == g_vol_chan - midCh && fullRange == g_fullrange && vol <= 127)
__CPROVER_requires(g_vol_chan[0].volume <= 127 && g_vol_chan[0].expression <= 127 && g_vol_chan[0].brightness <= 127)
__CPROVER_assigns(g_touch_calls, g_touch_c, g_touch_v, g_touch_cv, g_touch_ce, g_touch_br)
__CPROVER_ensures((props_mask & 0x4) == 0 ==> g_touch_calls == __CPROVER_old(g_touch_calls))
__CPROVER_ensures((props_mask & 0x4) != 0 ==> (g_touch_calls == __CPROVER_old(g_touch_calls) + 1 && g_touch_c == c && g_touch_v == vol &&
                  g_touch_cv == g_vol_chan[0].volume && g_touch_ce == g_vol_chan[0].expression && g_touch_br == SPEC_BRIGHTNESS(midCh)));
#endif
