/* Contracts for the argument-facing layer of the real-time MIDI API (C03): for ANY uint8/uint16 argument values
 * (no precondition on them) every table index stays inside its table and the table invariant Inv_T is preserved.
 * Inv_T here: 16 channels (ENV_N_MIDI_CHANNELS), and for every channel volume, expression, brightness, patch <= 127 -
 * the ranges that OPN2::touchNote / the instrument lookup need (their contracts: C11, C12). */
#ifndef RT_CONTRACTS_H
#define RT_CONTRACTS_H
#include "env_play.h"

static bool spec_inv_ranges(void)
{
    bool ok = true;
    for(size_t k = 0; k < ENV_N_MIDI_CHANNELS; k++)
        ok = ok && g_midiChannels_storage[k].volume <= 127 && g_midiChannels_storage[k].expression <= 127 &&
             g_midiChannels_storage[k].brightness <= 127 && g_midiChannels_storage[k].patch <= 127 &&
             /* pitch-bend sensitivity parts are byte-sized (set from a controller value or the defaults 2/0): no overflow in msb*128+lsb */
             g_midiChannels_storage[k].bendsense_msb >= 0 && g_midiChannels_storage[k].bendsense_msb <= 255 &&
             g_midiChannels_storage[k].bendsense_lsb >= 0 && g_midiChannels_storage[k].bendsense_lsb <= 255 &&
             g_midiChannels_storage[k].def_bendsense_msb >= 0 && g_midiChannels_storage[k].def_bendsense_msb <= 255 &&
             g_midiChannels_storage[k].def_bendsense_lsb >= 0 && g_midiChannels_storage[k].def_bendsense_lsb <= 255;
    return ok;
}
#define RT_REQUIRES __CPROVER_requires(ENV_CHANNELS_OK && spec_inv_ranges())
#define RT_FRAME    __CPROVER_assigns(g_midiChannels_storage, g_update_calls, g_other_calls)
#define RT_ENSURES  __CPROVER_ensures(spec_inv_ranges())
extern unsigned g_other_calls;

/* callees that are containers / note bookkeeping: ASSUMED contracts.  Each REQUIRES a channel index inside the table,
 * so a wrong guard in a caller fails at the call site; each is assumed not to touch the four range-constrained fields. */
#define CALLEE(decl) decl __CPROVER_requires(midCh < (long)g_play.m_midiChannels_size && midCh >= 0) __CPROVER_assigns(g_other_calls) __CPROVER_ensures(g_other_calls == __CPROVER_old(g_other_calls) + 1)
void noteUpdateAll(size_t midCh, unsigned props_mask)
__CPROVER_requires(midCh < g_play.m_midiChannels_size) __CPROVER_assigns(g_update_calls) __CPROVER_ensures(g_update_calls == __CPROVER_old(g_update_calls) + 1);
/* updatePortamento, setRPN: REAL bodies (extracted), proved against these contracts in their own groups and used by
 * contract at the call sites in realTime_Controller */
double pow(double x, double y) __CPROVER_requires(1) __CPROVER_assigns() __CPROVER_ensures(1);   /* libm: any double */
double exp(double x) __CPROVER_requires(x >= 0.0 && x <= 25.0) __CPROVER_assigns() __CPROVER_ensures(__CPROVER_return_value >= 1.0 && __CPROVER_return_value <= 1.0e11);   /* exp on [0, 25] */
void updatePortamento(size_t midCh)
__CPROVER_requires(midCh < g_play.m_midiChannels_size && ENV_CHANNELS_OK && spec_inv_ranges()) __CPROVER_assigns(g_midiChannels_storage) __CPROVER_ensures(spec_inv_ranges());
void setRPN(size_t midCh, unsigned value, bool MSB)
__CPROVER_requires(midCh < g_play.m_midiChannels_size && value <= 255 && ENV_CHANNELS_OK && spec_inv_ranges()) __CPROVER_assigns(g_midiChannels_storage) __CPROVER_ensures(spec_inv_ranges());
void noteOff(size_t midCh, uint8_t note, bool forceNow)
__CPROVER_requires(midCh < g_play.m_midiChannels_size) __CPROVER_assigns(g_other_calls) __CPROVER_ensures(g_other_calls == __CPROVER_old(g_other_calls) + 1);
void killSustainingNotes(int32_t midCh, int32_t this_adlchn, uint32_t sustain_type)
__CPROVER_requires(midCh >= -1 && midCh < (int32_t)g_play.m_midiChannels_size) __CPROVER_assigns(g_other_calls) __CPROVER_ensures(g_other_calls == __CPROVER_old(g_other_calls) + 1);
void markSostenutoNotes(int32_t midCh)
__CPROVER_requires(midCh >= -1 && midCh < (int32_t)g_play.m_midiChannels_size) __CPROVER_assigns(g_other_calls) __CPROVER_ensures(g_other_calls == __CPROVER_old(g_other_calls) + 1);
/* MIDIchannel::resetAllControllers121 / updateBendSensitivity (inline methods): REAL bodies (extracted with an explicit
 * self), proved against this contract in their own group */
void MIDIchannel_resetAllControllers121(MIDIchannel *self)
__CPROVER_requires(__CPROVER_same_object(self, g_midiChannels_storage) && (size_t)__CPROVER_POINTER_OFFSET(self) < sizeof(g_midiChannels_storage))
__CPROVER_requires(self->def_bendsense_msb >= 0 && self->def_bendsense_msb <= 255 && self->def_bendsense_lsb >= 0 && self->def_bendsense_lsb <= 255)
__CPROVER_assigns(*self)
__CPROVER_ensures(self->bendsense_msb == self->def_bendsense_msb && self->bendsense_lsb == self->def_bendsense_lsb &&
                  self->def_bendsense_msb == __CPROVER_old(self->def_bendsense_msb) && self->def_bendsense_lsb == __CPROVER_old(self->def_bendsense_lsb))
__CPROVER_ensures(self->expression == 127 && self->volume == __CPROVER_old(self->volume) && self->brightness == __CPROVER_old(self->brightness) && self->patch == __CPROVER_old(self->patch));

/* MIDIchannel::find_activenote (intrusive list lookup): ASSUMED behaviour, as a stub WITH A BODY (returned pointers
 * must be concrete for CBMC's value-set based dereferencing, DESIGN.md A.4): "not found" (NULL) or one cell of the
 * environment; rule R7 rewrites the iterator to a cell pointer and is_end() to a NULL test */
extern pl_cell_NoteInfo g_note_cell; extern const OpnInstMeta g_cell_instrument; extern MIDIchannel g_chan_win[1];
_Bool nondet_find_hit(void);
static pl_cell_NoteInfo *MIDIchannel_find_activenote(MIDIchannel *self, unsigned note)
{
    __CPROVER_assert((__CPROVER_same_object(self, g_midiChannels_storage) && (size_t)__CPROVER_POINTER_OFFSET(self) < sizeof(g_midiChannels_storage)) || self == &g_chan_win[0],
                     "CALLEE find_activenote is called on a channel OF the table");
    (void)note;
    if(!nondet_find_hit()) return NULL;
    /* note-list invariant (assumed): a cell's instrument pointer is NULL or a valid instrument */
    __CPROVER_assume(g_note_cell.value.ains == NULL || g_note_cell.value.ains == &g_cell_instrument);
    return &g_note_cell;
}

/* CBMC checks an index into a member array reached through a pointer only against the WHOLE object, so
 * noteAftertouch[note] with note >= 128 would pass its bounds check while overwriting sibling fields.  The contract
 * therefore states the frame at field level: apart from noteAftertouch[] and noteAfterTouchInUse every field of the
 * addressed channel keeps its value (ghost copy g_chan_before, typed equality generated from the extracted struct).
 * The addressed channel is a one-element typed window (m_midiChannels = g_chan_win - folded channel): an access to any
 * other channel is an out-of-bounds failure, and no symbolic table index remains in the query. */
extern MIDIchannel g_chan_before;
#define SPEC_FOLD(c) ((size_t)(c) >= ENV_N_MIDI_CHANNELS ? (size_t)(c) % 16 : (size_t)(c))
static bool spec_chan_same_but_aftertouch(void)
{
    MIDIchannel t = g_chan_before;
    for(size_t q = 0; q < 128; q++) t.noteAftertouch[q] = g_chan_win[0].noteAftertouch[q];
    t.noteAfterTouchInUse = g_chan_win[0].noteAfterTouchInUse;
    return spec_MIDIchannel_eq(&g_chan_win[0], &t);
}
void realTime_NoteAfterTouch(uint8_t channel, uint8_t note, uint8_t atVal)
__CPROVER_requires(g_play.m_midiChannels_size == ENV_N_MIDI_CHANNELS && g_play.m_midiChannels == g_chan_win - SPEC_FOLD(channel))
__CPROVER_requires(spec_chan_same_but_aftertouch() && g_chan_win[0].volume <= 127 && g_chan_win[0].expression <= 127 && g_chan_win[0].brightness <= 127 && g_chan_win[0].patch <= 127)
__CPROVER_assigns(g_chan_win, g_update_calls, g_other_calls, g_note_cell)
__CPROVER_ensures(spec_chan_same_but_aftertouch());

void realTime_Controller(uint8_t channel, uint8_t type, uint8_t value) RT_REQUIRES RT_FRAME RT_ENSURES;
void realTime_PatchChange(uint8_t channel, uint8_t patch) RT_REQUIRES RT_FRAME RT_ENSURES;
void realTime_PitchBend(uint8_t channel, uint16_t pitch) RT_REQUIRES RT_FRAME RT_ENSURES;
void realTime_PitchBend2(uint8_t channel, uint8_t msb, uint8_t lsb) RT_REQUIRES RT_FRAME RT_ENSURES;
void realTime_BankChangeLSB(uint8_t channel, uint8_t lsb) RT_REQUIRES RT_FRAME RT_ENSURES;
void realTime_BankChangeMSB(uint8_t channel, uint8_t msb) RT_REQUIRES RT_FRAME RT_ENSURES;
void realTime_BankChange(uint8_t channel, uint16_t bank) RT_REQUIRES RT_FRAME RT_ENSURES;
void realTime_ChannelAfterTouch(uint8_t channel, uint8_t atVal) RT_REQUIRES RT_FRAME RT_ENSURES;
void realTime_NoteOff(uint8_t channel, uint8_t note) RT_REQUIRES RT_FRAME RT_ENSURES;
#endif
