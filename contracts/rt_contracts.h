/* Contracts for the argument-facing layer of the real-time MIDI API (C03): for ANY uint8/uint16 argument values
 * (no precondition on them) every table index stays inside its table and the table invariant Inv_T is preserved.
 * Inv_T here: 16 channels (ENV_N_MIDI_CHANNELS), and for every channel volume, expression, brightness, patch <= 127 -
 * the ranges that OPN2::touchNote / the instrument lookup need (their contracts: C11, C12). */
#ifndef RT_CONTRACTS_H
#define RT_CONTRACTS_H
#include "env_play.h"

static bool spec_inv_ranges(void)
{
    bool ok = true;
    for(size_t k = 0; k < ENV_N_MIDI_CHANNELS; k++)
        ok = ok && g_midiChannels_storage[k].volume <= 127 && g_midiChannels_storage[k].expression <= 127 &&
             g_midiChannels_storage[k].brightness <= 127 && g_midiChannels_storage[k].patch <= 127;
    return ok;
}
#define RT_REQUIRES __CPROVER_requires(ENV_CHANNELS_OK && spec_inv_ranges())
#define RT_FRAME    __CPROVER_assigns(g_midiChannels_storage, g_update_calls, g_other_calls)
#define RT_ENSURES  __CPROVER_ensures(spec_inv_ranges())
extern unsigned g_other_calls;

/* callees that are containers / note bookkeeping: ASSUMED contracts.  Each REQUIRES a channel index inside the table,
 * so a wrong guard in a caller fails at the call site; each is assumed not to touch the four range-constrained fields. */
#define CALLEE(decl) decl __CPROVER_requires(midCh < (long)g_play.m_midiChannels_size && midCh >= 0) __CPROVER_assigns(g_other_calls) __CPROVER_ensures(g_other_calls == __CPROVER_old(g_other_calls) + 1)
void noteUpdateAll(size_t midCh, unsigned props_mask)
__CPROVER_requires(midCh < g_play.m_midiChannels_size) __CPROVER_assigns(g_update_calls) __CPROVER_ensures(g_update_calls == __CPROVER_old(g_update_calls) + 1);
void updatePortamento(size_t midCh)
__CPROVER_requires(midCh < g_play.m_midiChannels_size) __CPROVER_assigns(g_other_calls) __CPROVER_ensures(g_other_calls == __CPROVER_old(g_other_calls) + 1);
void setRPN(size_t midCh, unsigned value, bool MSB)
__CPROVER_requires(midCh < g_play.m_midiChannels_size) __CPROVER_assigns(g_other_calls) __CPROVER_ensures(g_other_calls == __CPROVER_old(g_other_calls) + 1);
void noteOff(size_t midCh, uint8_t note, bool forceNow)
__CPROVER_requires(midCh < g_play.m_midiChannels_size) __CPROVER_assigns(g_other_calls) __CPROVER_ensures(g_other_calls == __CPROVER_old(g_other_calls) + 1);
void killSustainingNotes(int32_t midCh, int32_t this_adlchn, uint32_t sustain_type)
__CPROVER_requires(midCh >= -1 && midCh < (int32_t)g_play.m_midiChannels_size) __CPROVER_assigns(g_other_calls) __CPROVER_ensures(g_other_calls == __CPROVER_old(g_other_calls) + 1);
void markSostenutoNotes(int32_t midCh)
__CPROVER_requires(midCh >= -1 && midCh < (int32_t)g_play.m_midiChannels_size) __CPROVER_assigns(g_other_calls) __CPROVER_ensures(g_other_calls == __CPROVER_old(g_other_calls) + 1);
/* MIDIchannel::resetAllControllers121 (inline method): resets bend, sensitivity, expression = 127, pedals, vibrato,
 * aftertouch, portamento of THAT channel; volume, brightness, patch untouched */
void MIDIchannel_resetAllControllers121(MIDIchannel *self)
__CPROVER_requires(__CPROVER_same_object(self, g_midiChannels_storage))
__CPROVER_assigns(*self)
__CPROVER_ensures(self->expression == 127 && self->volume == __CPROVER_old(self->volume) && self->brightness == __CPROVER_old(self->brightness) && self->patch == __CPROVER_old(self->patch));

/* MIDIchannel::find_activenote (intrusive list lookup): ASSUMED - returns "not found" (NULL here) or one cell of the
 * environment; rule R7 rewrites the iterator to a cell pointer and is_end() to a NULL test */
extern pl_cell_NoteInfo g_note_cell;
pl_cell_NoteInfo *MIDIchannel_find_activenote(MIDIchannel *self, unsigned note)
__CPROVER_requires(__CPROVER_same_object(self, g_midiChannels_storage))
__CPROVER_assigns()
__CPROVER_ensures(__CPROVER_return_value == NULL || __CPROVER_return_value == &g_note_cell);
/* CBMC checks an index into a member array reached through a pointer only against the WHOLE object (here the channel
 * table), so noteAftertouch[note] with note >= 128 would pass its bounds check while overwriting sibling fields.  The
 * contract therefore states the frame at field level: apart from noteAftertouch[] and noteAfterTouchInUse every field
 * of every channel keeps its value (ghost copy g_table_before, typed equality generated from the extracted struct). */
extern MIDIchannel g_table_before[ENV_N_MIDI_CHANNELS];
static bool spec_table_same_but_aftertouch(void)
{
    bool ok = true;
    for(size_t k = 0; k < ENV_N_MIDI_CHANNELS; k++)
    {
        MIDIchannel t = g_table_before[k];
        for(size_t q = 0; q < 128; q++) t.noteAftertouch[q] = g_midiChannels_storage[k].noteAftertouch[q];
        t.noteAfterTouchInUse = g_midiChannels_storage[k].noteAfterTouchInUse;
        ok = ok && spec_MIDIchannel_eq(&g_midiChannels_storage[k], &t);
    }
    return ok;
}
void realTime_NoteAfterTouch(uint8_t channel, uint8_t note, uint8_t atVal) RT_REQUIRES
__CPROVER_requires(spec_table_same_but_aftertouch())
__CPROVER_assigns(g_midiChannels_storage, g_update_calls, g_other_calls, g_note_cell) RT_ENSURES
__CPROVER_ensures(spec_table_same_but_aftertouch());

void realTime_Controller(uint8_t channel, uint8_t type, uint8_t value) RT_REQUIRES RT_FRAME RT_ENSURES;
void realTime_PatchChange(uint8_t channel, uint8_t patch) RT_REQUIRES RT_FRAME RT_ENSURES;
void realTime_PitchBend(uint8_t channel, uint16_t pitch) RT_REQUIRES RT_FRAME RT_ENSURES;
void realTime_PitchBend2(uint8_t channel, uint8_t msb, uint8_t lsb) RT_REQUIRES RT_FRAME RT_ENSURES;
void realTime_BankChangeLSB(uint8_t channel, uint8_t lsb) RT_REQUIRES RT_FRAME RT_ENSURES;
void realTime_BankChangeMSB(uint8_t channel, uint8_t msb) RT_REQUIRES RT_FRAME RT_ENSURES;
void realTime_BankChange(uint8_t channel, uint16_t bank) RT_REQUIRES RT_FRAME RT_ENSURES;
void realTime_ChannelAfterTouch(uint8_t channel, uint8_t atVal) RT_REQUIRES RT_FRAME RT_ENSURES;
void realTime_NoteOff(uint8_t channel, uint8_t note) RT_REQUIRES RT_FRAME RT_ENSURES;
#endif
