/* Contract for the instrument-resolution prefix of OPNMIDIplay::realTime_NoteOn (C12; also closes the C03 gap for that
 * function's argument handling).  The prefix = the real text from the signature to the anchor line
 * `MIDIchannel::NoteInfo::Phys voices[` (rule R12); its results are handed out through g_res. */
#ifndef NOTEON_CONTRACTS_H
#define NOTEON_CONTRACTS_H
#include "rt_contracts.h"
#define min(a, b) ((a) < (b) ? (a) : (b))
#define max(a, b) ((a) > (b) ? (a) : (b))

extern const OpnInstMeta m_emptyInstrument;     /* Synth::m_emptyInstrument: all zero, flags = Flag_NoSound */
typedef struct { size_t bank; size_t midiins; const OpnInstMeta *ains; int32_t tone; uint8_t velocity; bool isPercussion; uint8_t channel, note; bool reached; } noteon_result;
extern noteon_result g_res;

/* ---- the bank map as a ghost view: three candidate keys (the only ones the documented fallback may ask for), each
 *      present or not, with its own bank object; any other key is absent ---- */
/* Each candidate bank is represented by the ONE entry the specification says is addressed (g_entry_index): the bank
 * pointer handed out is placed so that &bank->ins[g_entry_index] is that typed object; an access to any other entry
 * is an out-of-bounds failure (conservative).  (A whole 11 KB bank object indexed through a pointer with a symbolic
 * entry exhausted 8 GB.) */
extern size_t g_key[3]; extern bool g_present[3]; extern OpnInstMeta g_entry[3]; extern size_t g_entry_index;
#define SPEC_BANK_OF(q) ((const Bank *)((const OpnInstMeta *)&g_entry[q] - g_entry_index))
static const Bank *spec_lookup(size_t key)
{
    for(int q = 0; q < 3; q++)
        if(g_key[q] == key)
            return g_present[q] ? SPEC_BANK_OF(q) : NULL;   /* first matching candidate decides */
    return NULL;
}
/* stub WITH A BODY (not a replaced contract): a pointer that is only *assumed* equal to the lookup result would be a
 * nondeterministic pointer for CBMC's value-set based dereferencing (DESIGN.md A.4) */
static const Bank *bankmap_find(size_t bank) { return spec_lookup(bank); }

void noteUpdate(size_t midCh, pl_cell_NoteInfo *i, unsigned props_mask)
__CPROVER_requires(midCh < g_play.m_midiChannels_size && i != NULL) __CPROVER_assigns(g_other_calls) __CPROVER_ensures(1);

/* ---- specification of "bank select + program change pick the documented instrument" (statement of C12) ---- */
#define SPEC_CH(c) ((size_t)(c) >= ENV_N_MIDI_CHANNELS ? (size_t)(c) % 16 : (size_t)(c))     /* out-of-range channels fold back */
/* The addressed channel is a one-element typed window: m_midiChannels = g_chan_win - SPEC_CH(channel), so that
 * m_midiChannels[folded channel] is g_chan_win[0] and any other index is an out-of-bounds failure (a pointer into the
 * 5 KB table at a symbolic index made every field read a symbolic byte extraction: 17 minutes and 28 GB). */
extern MIDIchannel g_chan_win[1];
#define SPEC_IS_PERC(c) (((c) % 16 == 9) || g_chan_win[0].is_xg_percussion)
#define SPEC_NOTE(n) ((n) >= 127 ? 127 : (n))
static size_t spec_bank_number(uint8_t c)
{
    const MIDIchannel *ch = &g_chan_win[0];
    if(SPEC_IS_PERC(c))   /* the program selects the percussion bank; XG: SFX kits (MSB 126) offset by 128 */
        return (size_t)ch->patch + (((g_play.m_synthMode & Mode_XG) != 0 && ch->bank_msb == 0x7E) ? 128 : 0) + PercussionTag;
    if(!ch->bank_msb && !ch->bank_lsb) return 0;
    return ((g_play.m_synthMode & Mode_GS) != 0) ? (size_t)ch->bank_msb * 256 : (size_t)ch->bank_msb * 256 + ch->bank_lsb;   /* GS ignores the LSB */
}
#define SPEC_ENTRY(c, n) (SPEC_IS_PERC(c) ? (size_t)SPEC_NOTE(n) : (size_t)g_chan_win[0].patch)
/* candidate k of the three-step fallback: bank itself, bank with the low LSB bits cleared, bank 0 of the same kind;
 * bank 0 (melodic, key 0) is not looked up by number-first lookup (the code's `> 0` test) */
static const OpnInstMeta *spec_candidate(int k, size_t bank, size_t entry)
{
    size_t key = k == 0 ? bank : (k == 1 ? (bank & ~(size_t)0x7F) : (bank & PercussionTag));
    if(k == 0 && (bank & ~(size_t)PercussionTag) == 0) return NULL;
    if(k == 1 && key == bank) return NULL;
    for(int q = 0; q < 3; q++)
        if(g_key[q] == key)
            return g_present[q] ? &g_entry[q] : NULL;
    return NULL;
}
#define SPEC_SOUNDS(p) ((p) != NULL && ((p)->flags & Flag_NoSound) == 0)

/* ---- range A: argument handling (from the signature to `MIDIchannel &midiChan = ...`) -------------------------- */
typedef struct { uint8_t channel, note, velocity; bool reached; } noteon_args;
extern noteon_args g_args;
bool realTime_NoteOn_args(uint8_t channel, uint8_t note, uint8_t velocity)
__CPROVER_requires(ENV_CHANNELS_OK && g_play.m_synth == &g_synth)
__CPROVER_assigns(g_args, g_other_calls, g_update_calls, g_note_cell)
/* any channel/note/velocity byte, any music mode: the channel used from here on is inside the table, the key is
 * clamped to 127; velocity 0 is a note-off only (callee preconditions check every table index on the way) */
__CPROVER_ensures(g_args.reached ==> (g_args.channel == SPEC_CH(channel) && g_args.channel < ENV_N_MIDI_CHANNELS && g_args.note == SPEC_NOTE(note) && g_args.velocity == velocity && velocity != 0))
__CPROVER_ensures(!g_args.reached ==> (velocity == 0 || g_synth.m_musicMode == MODE_RSXX));

/* ---- range B: instrument resolution (from `size_t midiins = midiChan.patch;` to the allocation part) ----------- */
#define CAND(k) spec_candidate(k, spec_bank_number(channel), SPEC_ENTRY(channel, note))
bool realTime_NoteOn_resolve(uint8_t channel, uint8_t note, uint8_t velocity, MIDIchannel *midiChan__p, Synth *synth__p)
__CPROVER_requires(channel < ENV_N_MIDI_CHANNELS && note <= 127 && velocity != 0)                     /* what range A establishes */
__CPROVER_requires(midiChan__p == &g_chan_win[0] && g_chan_win[0].patch <= 127 && synth__p == &g_synth && ENV_HOOKS_OK)   /* table invariant of the channel */
__CPROVER_requires(g_entry_index == SPEC_ENTRY(channel, note))
__CPROVER_assigns(g_res)
/* (a melodic note that resolves to a blank instrument is reported under bank 0) */
__CPROVER_ensures(g_res.reached && g_res.isPercussion == SPEC_IS_PERC(channel) &&
                  (g_res.bank == spec_bank_number(channel) || (!g_res.isPercussion && (g_res.ains->flags & Flag_NoSound) != 0 && g_res.bank == 0)))
__CPROVER_ensures(g_res.midiins < 128 && g_res.midiins == SPEC_ENTRY(channel, note))
/* three-step fallback: the instrument used is the first candidate that sounds; if none does the note is blank */
__CPROVER_ensures(SPEC_SOUNDS(CAND(0)) ==> g_res.ains == CAND(0))
__CPROVER_ensures(!SPEC_SOUNDS(CAND(0)) && SPEC_SOUNDS(CAND(1)) ==> g_res.ains == CAND(1))
__CPROVER_ensures(!SPEC_SOUNDS(CAND(0)) && !SPEC_SOUNDS(CAND(1)) && SPEC_SOUNDS(CAND(2)) ==> g_res.ains == CAND(2))
__CPROVER_ensures(!SPEC_SOUNDS(CAND(0)) && !SPEC_SOUNDS(CAND(1)) && !SPEC_SOUNDS(CAND(2)) ==> (g_res.ains->flags & Flag_NoSound) != 0)
/* the instrument is the empty one or the addressed entry of a present bank */
__CPROVER_ensures(g_res.ains == &m_emptyInstrument ||
                  (g_present[0] && g_res.ains == &g_entry[0]) || (g_present[1] && g_res.ains == &g_entry[1]) || (g_present[2] && g_res.ains == &g_entry[2]))
/* the drum key fixes the pitch; velocity is offset by the instrument and clamped to 1..127 */
__CPROVER_ensures(g_res.tone == (g_res.ains->drumTone == 0 ? (int32_t)note : (g_res.ains->drumTone >= 128 ? g_res.ains->drumTone - 128 : g_res.ains->drumTone)))
__CPROVER_ensures(g_res.velocity >= 1 && g_res.velocity <= 127 &&
                  g_res.velocity == ((int)velocity + g_res.ains->midiVelocityOffset < 1 ? 1 : ((int)velocity + g_res.ains->midiVelocityOffset > 127 ? 127 : (int)velocity + g_res.ains->midiVelocityOffset)))
;
#endif
