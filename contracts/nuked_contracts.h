/* C14 - contracts on the Nuked OPN2 core, src/chips/nuked/ym3438.c, verified IN PLACE (Route A).
 * Forward declarations carrying the contracts; the harness TU then includes the repository file itself.
 *
 * What the property needs from every entry point the library's wrapper (src/chips/nuked_opn2.cpp) calls:
 *   FRAME     the call assigns nothing but the chip object it is given (and the two output samples):
 *             __CPROVER_assigns(whole chip object [, buf[0], buf[1]]) - a write to any file-scope or function-static
 *             object, or through a pointer into another chip, fails a "... is assignable" obligation;
 *   INV       a representation invariant (indices that address the chip's own tables and the constant tables) that
 *             every entry point preserves and OPN2_Reset establishes from ARBITRARY memory: under it every read and
 *             write of the core lands inside the chip object, the arguments or the constant tables (pointer checks);
 *   NO SHARED MUTABLE STATE  checked next to the contracts from the compiled symbol table (vlib/props/C14.py):
 *             the translation unit has no mutable object of static lifetime.
 * FRAME + INV + NO SHARED MUTABLE STATE  ==>  the state after a call and the samples returned are a function of
 * (*chip before, arguments) only, and calls on different chips commute and cannot race (DESIGN.md A.9). */
#ifndef NUKED_CONTRACTS_H
#define NUKED_CONTRACTS_H
#include <stdint.h>
#include "chips/nuked/ym3438.h"
#include "nuked_gen.h"      /* generated on every run: NUKED_CHIPTYPE_GLOBAL or NUKED_CHIPTYPE_PER_CHIP */

#define NUKED_INV(c) ((c)->cycles < 24 && (c)->channel == (c)->cycles % 6u && (c)->lfo_freq < 8 && (c)->eg_timer_low_lock < 4 \
    && (c)->dacen <= 1 && (c)->write_data < 0x200 && (c)->writebuf_cur < OPN_WRITEBUF_SIZE && (c)->writebuf_last < OPN_WRITEBUF_SIZE \
     && (c)->connect[0] < 8 && (c)->connect[1] < 8 && (c)->connect[2] < 8 && (c)->connect[3] < 8 && (c)->connect[4] < 8 && (c)->connect[5] < 8 \
     && (c)->pms[0] < 8 && (c)->pms[1] < 8 && (c)->pms[2] < 8 && (c)->pms[3] < 8 && (c)->pms[4] < 8 && (c)->pms[5] < 8 \
     && (c)->ams[0] < 4 && (c)->ams[1] < 4 && (c)->ams[2] < 4 && (c)->ams[3] < 4 && (c)->ams[4] < 4 && (c)->ams[5] < 4)

/* the chip object: a fresh object of the chip's size, or (NUKED_TYPED_ENV, the two functions that index the 2048-entry write
 * queue at a symbolic position) one typed object of the harness - DFCC starts with every static object nondeterministic, and
 * byte-extraction from an untyped fresh object at a symbolic index does not finish (DESIGN.md A.4) */
#ifdef NUKED_TYPED_ENV
extern ym3438_t g_nuked_chip;
#define NUKED_CHIP(c) ((c) == &g_nuked_chip)
#else
#define NUKED_CHIP(c) (__CPROVER_is_fresh(c, sizeof(ym3438_t)))
#endif

void OPN2_Clock(ym3438_t *chip, Bit16s *buffer)
__CPROVER_requires(NUKED_CHIP(chip) && __CPROVER_is_fresh(buffer, 2 * sizeof(Bit16s)))
__CPROVER_requires(NUKED_INV(chip))
__CPROVER_assigns(__CPROVER_object_whole(chip), buffer[0], buffer[1])
__CPROVER_ensures(NUKED_INV(chip))
;

void OPN2_Write(ym3438_t *chip, Bit32u port, Bit8u data)
__CPROVER_requires(NUKED_CHIP(chip))
__CPROVER_requires(NUKED_INV(chip))
__CPROVER_assigns(__CPROVER_object_whole(chip))
__CPROVER_ensures(NUKED_INV(chip))
;

/* the wrapper passes the chip channel 0..5 (OPN2::setPan); the core does not check it */
void OPN2_WritePan(ym3438_t *chip, Bit32u channel, Bit8u data)
__CPROVER_requires(NUKED_CHIP(chip) && channel < 6)
__CPROVER_requires(NUKED_INV(chip))
__CPROVER_assigns(chip->pan_volume_l[channel], chip->pan_volume_r[channel])
__CPROVER_ensures(NUKED_INV(chip))
;

void OPN2_WriteBuffered(ym3438_t *chip, Bit32u port, Bit8u data)
__CPROVER_requires(NUKED_CHIP(chip))
__CPROVER_requires(NUKED_INV(chip))
__CPROVER_assigns(__CPROVER_object_whole(chip))
__CPROVER_ensures(NUKED_INV(chip))
;

void OPN2_Generate(ym3438_t *chip, Bit16s *buf)
__CPROVER_requires(NUKED_CHIP(chip) && __CPROVER_is_fresh(buf, 2 * sizeof(Bit16s)))
__CPROVER_requires(NUKED_INV(chip))
__CPROVER_assigns(__CPROVER_object_whole(chip), buf[0], buf[1])
__CPROVER_ensures(NUKED_INV(chip))
;

/* establishes the invariant from ARBITRARY memory (the wrapper calls it on a `new ym3438_t`): base case of the induction */
void OPN2_Reset(ym3438_t *chip, Bit32u rate, Bit32u clock)
__CPROVER_requires(NUKED_CHIP(chip) && clock != 0)
__CPROVER_assigns(__CPROVER_object_whole(chip))
__CPROVER_ensures(NUKED_INV(chip))
;

void OPN2_SetMute(ym3438_t *chip, Bit32u mute)
__CPROVER_requires(NUKED_CHIP(chip))
__CPROVER_requires(NUKED_INV(chip))
__CPROVER_assigns(__CPROVER_object_upto(chip->mute, sizeof(chip->mute)))
__CPROVER_ensures(NUKED_INV(chip))
;

/* the remaining register-level entry points of the core (not called by the library's wrapper): same frame, same invariant */
Bit8u OPN2_Read(ym3438_t *chip, Bit32u port)
__CPROVER_requires(NUKED_CHIP(chip))
__CPROVER_requires(NUKED_INV(chip))
__CPROVER_assigns(__CPROVER_object_whole(chip))
__CPROVER_ensures(NUKED_INV(chip))
;
void OPN2_SetTestPin(ym3438_t *chip, Bit32u value)
__CPROVER_requires(NUKED_CHIP(chip))
__CPROVER_requires(NUKED_INV(chip))
__CPROVER_assigns(chip->pin_test_in)
__CPROVER_ensures(NUKED_INV(chip))
;
Bit32u OPN2_ReadTestPin(ym3438_t *chip)
__CPROVER_requires(NUKED_CHIP(chip))
__CPROVER_requires(NUKED_INV(chip))
__CPROVER_assigns()
__CPROVER_ensures(NUKED_INV(chip))
;
Bit32u OPN2_ReadIRQPin(ym3438_t *chip)
__CPROVER_requires(NUKED_CHIP(chip))
__CPROVER_requires(NUKED_INV(chip))
__CPROVER_assigns()
__CPROVER_ensures(NUKED_INV(chip))
;

#ifdef NUKED_CHIPTYPE_PER_CHIP
/* the chip type (YM2612 DAC ladder / YM3438 status read mode) is a setting of ONE chip */
void OPN2_SetChipType(ym3438_t *chip, Bit32u type)
__CPROVER_requires(NUKED_CHIP(chip))
__CPROVER_requires(NUKED_INV(chip))
__CPROVER_assigns(chip->chip_type)
__CPROVER_ensures(chip->chip_type == type && NUKED_INV(chip))
;
#else
/* a setter without a chip argument configures the PROCESS: by the property it must then leave every object alone.
 * (This is the contract the unrepaired tree fails: known finding fixed in /repo, see known_findings.json.) */
void OPN2_SetChipType(Bit32u type)
__CPROVER_requires(1)
__CPROVER_assigns()
__CPROVER_ensures(1)
;
#endif
#endif
