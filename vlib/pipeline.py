"""CBMC contract pipeline: goto-cc -> goto-instrument --dfcc -> cbmc, one obligation group per run.

Exit-code policy (see DESIGN.md 3.2) is implemented in check.py; this module only runs groups and
classifies their outcome:
  ok        every obligation SUCCESS, every REACH goal reachable, required obligations present
  violated  at least one obligation of the group is FAILURE (list attached)
  tool      timeout / out of memory / compile error / missing obligation / unreachable goal  (exit 2)
"""
import json, os, re, resource, shutil, subprocess, tempfile, time, hashlib

VERIF = os.path.dirname(os.path.dirname(os.path.abspath(__file__)))
REPO = os.environ.get("VERIF_REPO", "/repo")
GUARD = "LIBOPNMIDI_VERIF"

BASE_CHECKS = ["--bounds-check", "--pointer-check", "--pointer-overflow-check", "--div-by-zero-check",
               "--signed-overflow-check", "--undefined-shift-check", "--no-malloc-may-fail",
               "--pointer-primitive-check"]


class Group:
    def __init__(self, name, src, entry, enforce=None, replace=(), loops=False, flags=(), unwindset=None,
                 unwind=None, object_bits=None, timeout=300, mem_gb=8, backend="sat", defines=(),
                 required=(), bounded=None, includes=(), funcs=(), note="", trusted=(), assumptions=(),
                 known=None, extract=None, tier="quick", checks=None, native_ok=True, property_tag=None,
                 cc_mode="c", pre_unwindset=None):
        self.name = name; self.src = src; self.entry = entry; self.enforce = enforce
        self.replace = list(replace); self.loops = loops; self.flags = list(flags)
        self.unwindset = unwindset; self.unwind = unwind; self.object_bits = object_bits
        self.timeout = timeout; self.mem_gb = mem_gb; self.backend = backend; self.defines = list(defines)
        self.required = list(required); self.bounded = bounded; self.includes = list(includes)
        self.funcs = list(funcs)      # functions under contract in this group (for evidence)
        self.note = note; self.trusted = list(trusted); self.assumptions = list(assumptions)
        self.known = known            # dict(id=..., define=..., obligations=[regex]) or None
        self.extract = extract        # callable(workdir) -> dict(info) that writes generated sources
        self.tier = tier; self.checks = checks; self.property_tag = property_tag; self.unwind_is_obligation = False; self.pre_unwindset = pre_unwindset


def _limits(mem_gb):
    def f():
        resource.setrlimit(resource.RLIMIT_AS, (int(mem_gb * 2**30), int(mem_gb * 2**30)))
        os.setsid()
    return f


def _run(cmd, timeout, mem_gb, cwd, out=None):
    t0 = time.time()
    try:
        p = subprocess.Popen(cmd, cwd=cwd, stdout=subprocess.PIPE if out is None else open(out, "wb"),
                             stderr=subprocess.PIPE, preexec_fn=_limits(mem_gb))
        try:
            so, se = p.communicate(timeout=timeout)
        except subprocess.TimeoutExpired:
            try:
                os.killpg(p.pid, 9)
            except Exception:
                p.kill()
            p.communicate()
            return None, b"", b"timeout", time.time() - t0
        return p.returncode, so or b"", se or b"", time.time() - t0
    except Exception as e:  # pragma: no cover
        return None, b"", str(e).encode(), time.time() - t0


def _parse_cbmc_json(path):
    try:
        data = json.load(open(path))
    except Exception as e:
        return None, "cannot parse cbmc json: %s" % e, []
    results = None; msgs = []; status = None
    for e in data:
        if "result" in e:
            results = e["result"]
        if "messageText" in e:
            msgs.append(e["messageText"])
        if "cProverStatus" in e:
            status = e["cProverStatus"]
    return results, status, msgs


def run_group(g, workroot, extra_defines=(), want_trace=False, only_property=None):
    """Run one group. Returns dict(status, obligations[], reach[], wall_s, solver_s, cmd, detail)."""
    wd = tempfile.mkdtemp(prefix=g.name + "_", dir=workroot)
    res = dict(group=g.name, status="tool", obligations=[], reach=[], wall_s=0.0, solver_s=0.0,
               detail="", cmd="", backend=g.backend, bounded=g.bounded, extraction=None)
    t0 = time.time()
    try:
        src = g.src if os.path.isabs(g.src) else os.path.join(VERIF, g.src)
        if g.extract is not None:
            try:
                res["extraction"] = g.extract(wd)
            except ExtractionError as e:
                res["detail"] = "extraction broke: %s" % e
                return res
        incs = ["-I" + wd, "-I" + os.path.join(VERIF, "contracts"), "-I" + os.path.join(VERIF, "harness"),
                "-I" + os.path.join(REPO, "src"), "-I" + os.path.join(REPO, "include")]
        for i in g.includes:
            incs.append("-I" + (i if os.path.isabs(i) else os.path.join(REPO, i)))
        defs = ["-D" + GUARD, "-DVERIF_CBMC", '-DREPO="%s"' % REPO] + ["-D" + d for d in g.defines] + \
               ["-D" + d for d in extra_defines]
        a = os.path.join(wd, "a.gb"); b = os.path.join(wd, "b.gb")
        cmd = ["goto-cc", "--function", g.entry] + defs + incs + [src, "-o", a]
        rc, so, se, _ = _run(cmd, 120, 8, wd)
        if rc != 0:
            res["detail"] = "goto-cc failed: " + (se.decode(errors="replace") + so.decode(errors="replace"))[-2000:]
            return res
        if g.pre_unwindset:
            # loops without a contract inside a function that has loop contracts are unwound BEFORE the contract pass
            # (DFCC otherwise rejects assignments to their loop counters)
            a2 = os.path.join(wd, "a2.gb")
            rc, so, se, _ = _run(["goto-instrument", "--unwindset", g.pre_unwindset, "--unwinding-assertions", a, a2], 120, 8, wd)
            if rc != 0:
                res["detail"] = "goto-instrument --unwindset failed: " + (se.decode(errors="replace") + so.decode(errors="replace"))[-1500:]
                return res
            a = a2
        gi = ["goto-instrument", "--dfcc", g.entry, "--no-malloc-may-fail"]
        if g.enforce:
            gi += ["--enforce-contract", g.enforce]
        for r in g.replace:
            gi += ["--replace-call-with-contract", r]
        if g.loops:
            gi += ["--apply-loop-contracts"]
        gi += [a, b]
        rc, so, se, _ = _run(gi, 300, 8, wd)
        gi_out = se.decode(errors="replace") + so.decode(errors="replace")
        if rc != 0:
            res["detail"] = "goto-instrument failed: " + gi_out[-3000:]
            return res
        if any("does not have a contract" in l and not l.strip().startswith("loop ") for l in gi_out.splitlines()):
            res["detail"] = "goto-instrument: contract missing: " + gi_out[-1500:]
            return res
        checks = list(BASE_CHECKS if g.checks is None else g.checks)
        # DFCC allocates tables of 2^object_bits entries: memory grows steeply with --object-bits, so start
        # small and escalate only when cbmc reports "too many addressed objects"
        ob = g.object_bits or 8
        outp = os.path.join(wd, "out.json")
        while True:
            cb = ["cbmc", b] + checks + list(g.flags)
            if g.unwind is not None:
                cb += ["--unwind", str(g.unwind), "--unwinding-assertions"]
            if g.unwindset:
                cb += ["--unwindset", g.unwindset, "--unwinding-assertions"]
            cb += ["--object-bits", str(ob)]
            if g.backend == "cvc5-bvint":   # pure-arithmetic lemma groups: cvc5, bit-vectors translated to integers
                cb += ["--cvc5", "--external-smt2-solver", os.path.join(VERIF, "tools", "cvc5_bvint.sh")]
            elif g.backend == "cvc5":
                cb += ["--cvc5"]
            elif g.backend == "z3":
                cb += ["--z3"]
            elif g.backend not in ("sat", None):
                cb += ["--sat-solver", g.backend]
            cb += ["--trace"]   # traces are only produced for failed properties; no second run needed for the replay file
            if only_property:
                cb += ["--property", only_property]
            cb += ["--json-ui"]
            res["cmd"] = " ".join(cmd[:3] + ["…", os.path.relpath(src, VERIF) if src.startswith(VERIF) else src]) + \
                " && " + " ".join(gi[:-2]) + " && " + " ".join(x for x in cb if x != b)
            rc, so, se, ts = _run(cb, g.timeout, g.mem_gb, wd, out=outp)
            res["solver_s"] = round(res["solver_s"] + ts, 2)
            if rc is None:
                res["detail"] = "cbmc timeout after %ds" % g.timeout
                return res
            try:
                txt = open(outp, errors="replace").read()
            except Exception:
                txt = ""
            if "too many addressed objects" in txt and ob < 16:
                ob += 1
                continue
            break
        res["object_bits"] = ob
        results, st, msgs = _parse_cbmc_json(outp)
        if results is None:
            tail = ""
            try:
                tail = open(outp, errors="replace").read()
                errs = re.findall(r'"messageText": "([^"]*)",\s*"messageType": "ERROR"', tail)
                tail = " | ".join(errs) if errs else tail[-600:]
            except Exception:
                pass
            res["detail"] = "cbmc gave no result (rc=%s, likely out of memory or parse error): %s %s" % (
                rc, se.decode(errors="replace")[-500:], tail)
            return res
        ign = [m for m in msgs if "ignoring" in m]
        if ign:
            res["detail"] = "cbmc ignored a construct: " + ign[0]
            return res
        obl = []; reach = []
        for r in results:
            d = dict(id=r.get("property"), desc=r.get("description", ""), status=r.get("status"),
                     loc=_loc(r.get("sourceLocation")))
            if r.get("status") == "FAILURE" and "trace" in r and not d["desc"].startswith("REACH"):
                d["trace"] = r["trace"]
            if d["desc"].startswith("REACH"):
                reach.append(d)
            else:
                obl.append(d)
        res["obligations"] = obl; res["reach"] = reach
        if only_property:
            res["status"] = "partial"
            return res
        bad_reach = [r for r in reach if r["status"] != "FAILURE"]
        failed = [o for o in obl if o["status"] == "FAILURE"]
        other = [o for o in obl if o["status"] not in ("SUCCESS", "FAILURE")]
        missing = []
        for rq in g.required:
            if not any(re.search(rq, (o["id"] or "") + " " + o["desc"]) for o in obl):
                missing.append(rq)
        if not obl:
            res["detail"] = "zero obligations generated"
        elif missing:
            res["detail"] = "required obligations missing (contract silently dropped?): %s" % missing
        elif failed and any(".unwind." in (o["id"] or "") for o in failed) and not getattr(g, "unwind_is_obligation", False):
            res["detail"] = "unwinding bound too small (tool limit, not a violation): %s" % [o["id"] for o in failed if ".unwind." in (o["id"] or "")][:4]
        elif failed:
            # a failed obligation is a violation even if CBMC leaves later obligations of the same path undecided
            res["status"] = "violated"
            res["detail"] = "%d failed%s" % (len(failed), (", %d undecided after the failure" % len(other)) if other else "")
        elif other:
            res["detail"] = "undecided obligations: %s" % [(o["id"], o["status"]) for o in other[:5]]
        elif bad_reach:
            res["detail"] = "vacuity guard: goals not reachable: %s" % [r["desc"] for r in bad_reach]
        else:
            res["status"] = "ok"
        return res
    finally:
        res["wall_s"] = round(time.time() - t0, 2)
        if os.environ.get("VERIF_KEEP"):
            res["workdir"] = wd
        else:
            shutil.rmtree(wd, ignore_errors=True)


def _loc(sl):
    if not sl:
        return ""
    return "%s:%s %s" % (os.path.basename(sl.get("file", "")), sl.get("line", ""), sl.get("function", ""))


class ExtractionError(Exception):
    pass


def sha256_text(t):
    return hashlib.sha256(t.encode()).hexdigest()


def trace_values(trace, names=None):
    """Last assigned value per lhs in a CBMC json trace (non-hidden assignment steps)."""
    vals = {}
    for s in trace:
        if s.get("stepType") != "assignment":
            continue
        lhs = s.get("lhs")
        v = s.get("value", {})
        if lhs is None:
            continue
        if names is not None and not any(lhs == n or lhs.startswith(n + "[") or lhs.startswith(n + ".") for n in names):
            continue
        vals[lhs] = _val(v)
    return vals


def _val(v):
    if "data" in v:
        return v["data"]
    if "elements" in v:
        return [_val(e["value"]) for e in v["elements"]]
    if "members" in v:
        return {m["name"]: _val(m["value"]) for m in v["members"]}
    return v.get("name")
