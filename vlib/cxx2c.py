"""cxx2c - mechanical extraction of C-like C++ member functions and struct layouts to C (Route B of DESIGN.md).

Every transformation is a *syntactic* rule applied to text copied verbatim from the current /repo tree.
Each rule reports how often it fired; a rule marked `must` that does not fire raises ExtractionError
(=> exit 2 "extraction broke", never a violation).  Nothing here knows what the code is supposed to do.
"""
import re, hashlib
from .pipeline import ExtractionError


# ------------------------------------------------------------------------------------------ lexical helpers
def strip_comments(t):
    """Remove // and /* */ comments and keep line structure; string literals are respected."""
    out = []; i = 0; n = len(t)
    while i < n:
        c = t[i]
        if c == '"' or c == "'":
            j = i + 1
            while j < n and t[j] != c:
                j += 2 if t[j] == "\\" else 1
            out.append(t[i:j + 1]); i = j + 1
        elif t.startswith("//", i):
            j = t.find("\n", i)
            j = n if j < 0 else j
            i = j
        elif t.startswith("/*", i):
            j = t.find("*/", i + 2)
            j = n - 2 if j < 0 else j
            out.append("".join(ch if ch == "\n" else " " for ch in t[i:j + 2])); i = j + 2
        else:
            out.append(c); i += 1
    return "".join(out)


def match_close(t, i, op="(", cl=")"):
    """t[i] == op; returns index of the matching closer (string/char literals and comments skipped)."""
    assert t[i] == op, (t[i:i + 20], op)
    d = 0; n = len(t)
    while i < n:
        c = t[i]
        if c == '"' or c == "'":
            j = i + 1
            while j < n and t[j] != c:
                j += 2 if t[j] == "\\" else 1
            i = j + 1; continue
        if t.startswith("//", i):
            j = t.find("\n", i); i = n if j < 0 else j; continue
        if t.startswith("/*", i):
            j = t.find("*/", i + 2); i = n if j < 0 else j + 2; continue
        if c == op:
            d += 1
        elif c == cl:
            d -= 1
            if d == 0:
                return i
        i += 1
    raise ExtractionError("unbalanced %s%s" % (op, cl))


def sha(t):
    return hashlib.sha256(t.encode()).hexdigest()[:16]


# ------------------------------------------------------------------------------------------ function lookup
class Fn:
    def __init__(self, name, ret, params, body, line0, line1, src, path):
        self.name = name; self.ret = ret; self.params = params; self.body = body
        self.line0 = line0; self.line1 = line1; self.src = src; self.path = path

    def info(self):
        return dict(function=self.name, file=self.path, lines=[self.line0, self.line1], sha256_16=sha(self.src))


def find_function(text, qualname, path="", params_re=None, which=None):
    """Definition `<ret> <qualname>(<params>) [const] {body}`; exactly one match required (or `which`-th
    among overloads filtered by params_re)."""
    cands = []
    for m in re.finditer(r"(?m)^([ \t]*)([\w:<>\*&~ \t]*?[ \t\*&])(%s)[ \t]*\(" % re.escape(qualname), text):
        lp = m.end() - 1
        try:
            rp = match_close(text, lp)
        except ExtractionError:
            continue
        k = rp + 1
        mm = re.match(r"\s*(const)?\s*\{", text[k:])
        if not mm:
            continue
        lb = k + mm.end() - 1
        rb = match_close(text, lb, "{", "}")
        params = text[lp + 1:rp]
        if params_re and not re.search(params_re, params):
            continue
        ret = m.group(2).strip()
        if ret in ("return", "else", "new", "delete"):
            continue
        cands.append(Fn(qualname, ret, params, text[lb:rb + 1], text.count("\n", 0, m.start()) + 1,
                        text.count("\n", 0, rb) + 1, text[m.start():rb + 1], path))
    if which is not None and len(cands) > which:
        return cands[which]
    if len(cands) != 1:
        raise ExtractionError("function %s: %d definitions match (need exactly 1)" % (qualname, len(cands)))
    return cands[0]


def find_inline_method(text, cls_body_owner, name, path="", params_re=None):
    """Inline member function defined inside a class body: `<ret> name(<params>) [const] {body}`."""
    cands = []
    for m in re.finditer(r"(?m)^([ \t]*)([\w:<>\*& \t]*?[ \t\*&])(%s)[ \t]*\(" % re.escape(name), text):
        lp = m.end() - 1
        rp = match_close(text, lp)
        mm = re.match(r"\s*(const)?\s*\{", text[rp + 1:])
        if not mm:
            continue
        lb = rp + 1 + mm.end() - 1
        rb = match_close(text, lb, "{", "}")
        params = text[lp + 1:rp]
        if params_re and not re.search(params_re, params):
            continue
        ret = m.group(2).strip()
        if ret in ("return", "else"):
            continue
        cands.append(Fn(name, ret, params, text[lb:rb + 1], text.count("\n", 0, m.start()) + 1,
                        text.count("\n", 0, rb) + 1, text[m.start():rb + 1], path))
    if len(cands) != 1:
        raise ExtractionError("inline method %s: %d definitions match" % (name, len(cands)))
    return cands[0]


# ------------------------------------------------------------------------------------------ rewrite rules
class Rules:
    """Ordered syntactic rewrite rules with fire counts."""

    def __init__(self):
        self.fired = {}

    def _count(self, rule, n):
        self.fired[rule] = self.fired.get(rule, 0) + n

    def sub(self, rule, pattern, repl, text, must=False, flags=0):
        new, n = re.subn(pattern, repl, text, flags=flags)
        self._count(rule, n)
        if must and n == 0:
            raise ExtractionError("rule %s must fire but did not (pattern %r)" % (rule, pattern))
        return new

    # R1 scope qualifiers
    def r1_scope(self, text, scopes):
        for s in scopes:
            text = self.sub("R1:" + s, r"(?<![\w:])%s::" % re.escape(s), "", text)
        text = self.sub("R1:std", r"(?<![\w:])std::(?=(log|exp|sqrt|floor|pow|sin|cos|fabs|abs|memset|memcpy|memcmp|strncpy|min|max|round|isfinite)\b)", "", text)
        for ty, lim in (("double", "DBL"), ("float", "FLT")):
            text = self.sub("R1:limits", r"std::numeric_limits\s*<\s*%s\s*>\s*::\s*max\s*\(\s*\)" % ty, lim + "_MAX", text)
            text = self.sub("R1:limits", r"std::numeric_limits\s*<\s*%s\s*>\s*::\s*infinity\s*\(\s*\)" % ty, "((%s)INFINITY)" % ty, text)
        text = self.sub("R1:global", r"(?<![\w:\)])::(?=[a-z_]\w*\s*\()", "", text)
        return text

    # R2 casts
    def r2_casts(self, text):
        for kw in ("static_cast", "reinterpret_cast", "const_cast"):
            while True:
                m = re.search(r"\b%s\s*<" % kw, text)
                if not m:
                    break
                lt = m.end() - 1
                gt = match_close(text, lt, "<", ">")
                ty = text[lt + 1:gt].strip()
                lp = text.index("(", gt)
                rp = match_close(text, lp)
                if kw == "const_cast" and ty.endswith("&"):
                    # const_cast<T &>(e): only removes a qualifier - no operation in C
                    text = text[:m.start()] + "(" + text[lp + 1:rp] + ")" + text[rp + 1:]
                else:
                    text = text[:m.start()] + "((" + ty + ")(" + text[lp + 1:rp] + "))" + text[rp + 1:]
                self._count("R2:" + kw, 1)
        # functional casts T(e) for builtin arithmetic types
        pat = re.compile(r"(?<![\w>\.\)])((?:u?int(?:8|16|32|64)_t|size_t|uint_fast32_t|int_fast32_t|unsigned|double|float|intptr_t|ssize_t|int|long))\s*\((?!\s*\*)")
        pos = 0
        while True:
            m = pat.search(text, pos)
            if not m:
                break
            # not a declaration like `unsigned (x)`; require it is preceded by an operator/paren/comma/return/=
            pre = text[:m.start()].rstrip()
            if pre and (pre[-1] in "=(,+-*/%&|^<>!?:[{;}" or pre.endswith("return")) and not re.search(r"\b(sizeof)$", pre):
                lp = m.end() - 1
                rp = match_close(text, lp)
                text = text[:m.start()] + "((" + m.group(1) + ")(" + text[lp + 1:rp] + "))" + text[rp + 1:]
                self._count("R2:functional", 1)
                pos = m.start() + 2
            else:
                pos = m.end()
        return text

    # R3 reference locals:  [const] T &x = e;   ->   [const] T *x__p = &(e);  + #define x (*x__p)
    def r3_ref_locals(self, text):
        defs = []

        def rep(m):
            cst, ty, name, expr = m.group(1) or "", m.group(2), m.group(3), m.group(4)
            defs.append(name)
            return "%s%s *%s__p = &(%s);" % (cst, ty, name, expr)
        text2 = re.sub(r"(?m)(\bconst\s+)?\b([A-Za-z_][\w:]*(?:\s*<[^;<>]*>)?)\s*&\s*([A-Za-z_]\w*)\s*=\s*([^;]+);", rep, text)
        self._count("R3:ref_local", len(defs))
        return text2, defs

    # R5 container members: v.size() v.empty() v.get() v.data()
    def r5_containers(self, text, vectors=(), sptrs=()):
        for v in vectors:
            ve = re.escape(v)
            text = self.sub("R5:size:" + v, r"(?<![\w])%s\s*\.\s*size\s*\(\s*\)" % ve, v.replace(".", "_").replace("->", "_") + "_size" if False else _sz(v), text)
            text = self.sub("R5:empty:" + v, r"(?<![\w])%s\s*\.\s*empty\s*\(\s*\)" % ve, "(" + _sz(v) + " == 0)", text)
            text = self.sub("R5:data:" + v, r"(?<![\w])%s\s*\.\s*data\s*\(\s*\)" % ve, v, text)
        for p in sptrs:
            pe = re.escape(p)
            text = self.sub("R5:get:" + p, r"(?<![\w])%s\s*\.\s*get\s*\(\s*\)" % pe, p, text)
        return text

    # R10 implicit this for a unique object: bare member name -> obj.member
    def r10_members(self, text, members, obj, locals_=()):
        names = [m for m in members if m not in locals_]
        if not names:
            return text
        pat = r"(?<![\w\.>])(?<!->)(%s)\b(?!\s*::)" % "|".join(re.escape(n) for n in sorted(names, key=len, reverse=True))
        return self.sub("R10:this->" + obj, pat, obj + r".\1", text)


def _sz(v):
    # size ghost of container expression v:  a.b -> a.b_size ; a->b -> a->b_size
    return v + "_size"


def params_to_c(params, rules, ref_macros):
    """R4: reference parameters become pointers; default arguments dropped. Returns C parameter list."""
    out = []
    depth = 0; cur = ""; parts = []
    for ch in params:
        if ch in "(<":
            depth += 1
        if ch in ")>":
            depth -= 1
        if ch == "," and depth == 0:
            parts.append(cur); cur = ""
        else:
            cur += ch
    if cur.strip():
        parts.append(cur)
    for p in parts:
        p = p.strip()
        if "=" in p:
            p = p[:p.index("=")].strip(); rules._count("R4:default_arg_dropped", 1)
        m = re.match(r"(.*?)&\s*(\w+)$", p)
        if m:
            ref_macros.append(m.group(2))
            p = "%s *%s__p" % (m.group(1).strip(), m.group(2)); rules._count("R4:ref_param", 1)
        out.append(p)
    return ", ".join(out) if out else "void"


# ------------------------------------------------------------------------------------------ struct layouts
def class_body(text, kind_name_re, path=""):
    """Body (between braces) of `struct|class <name> ... {`; exactly one definition."""
    ms = [m for m in re.finditer(r"\b(struct|class)\s+(%s)\b[^;{()]*\{" % kind_name_re, text)]
    if len(ms) != 1:
        raise ExtractionError("class %s: %d definitions in %s" % (kind_name_re, len(ms), path))
    lb = ms[0].end() - 1
    rb = match_close(text, lb, "{", "}")
    return text[lb + 1:rb]


def split_members(body):
    """Top-level member declarations of a class body (comments already stripped)."""
    items = []; i = 0; n = len(body); start = 0; depth_par = 0
    while i < n:
        c = body[i]
        if c == '"' or c == "'":
            j = i + 1
            while j < n and body[j] != c:
                j += 2 if body[j] == "\\" else 1
            i = j + 1; continue
        if c == "(":
            i = match_close(body, i) + 1; continue
        if c == "{":
            j = match_close(body, i, "{", "}")
            # a brace block: function body (ends the item unless followed by declarator + ';' as in `enum {..} x;`)
            k = j + 1
            mm = re.match(r"\s*([\w\s\*,\[\]]*);", body[k:])
            head = body[start:i]
            if re.search(r"\)\s*(const)?\s*(:[^{]*)?$", head.strip()) or re.search(r"\)\s*(const)?\s*$", head.strip()):
                items.append(body[start:j + 1]); start = j + 1; i = j + 1
                # optional trailing ';'
                m2 = re.match(r"\s*;", body[start:])
                if m2:
                    start += m2.end(); i = start
                continue
            if mm:
                items.append(body[start:k + mm.end()]); start = k + mm.end(); i = start; continue
            items.append(body[start:j + 1]); start = j + 1; i = j + 1; continue
        if c == ";":
            items.append(body[start:i + 1]); start = i + 1
        i += 1
    return [x.strip() for x in items if x.strip()]


def struct_to_c(text, name, path, type_map=None, drop_types=(), seen=None, extra_members=None):
    """C definition(s) of struct `name` found in `text` (comments stripped before the call):
    data members kept verbatim, member functions / constructors / access specifiers dropped, nested structs
    hoisted (emitted first), std::vector<T> x -> T *x; size_t x_size;  Types in type_map are substituted."""
    type_map = type_map or {}
    body = class_body(text, re.escape(name), path)
    return _struct_body_to_c(body, name, type_map, drop_types, extra_members or {})


def _struct_body_to_c(body, name, type_map, drop_types, extra_members):
    pre = []; fields = []; members = []
    body = re.sub(r"(?m)^\s*(public|private|protected)\s*:", "", body)
    body = re.sub(r"(?m)^\s*#\s*(ifdef|ifndef|if|endif|else|elif|define|undef|pragma).*$", "", body)
    for it in split_members(body):
        s = it.strip()
        if s.startswith("friend ") or s.startswith("explicit ") or s.startswith("template") or s.startswith("using "):
            continue
        m = re.match(r"(struct|class)\s+(\w+)\s*\{", s)
        if m and s.rstrip().endswith("}") or (m and re.match(r"(struct|class)\s+\w+\s*\{", s) and re.search(r"\}\s*;$", s)):
            lb = s.index("{"); rb = match_close(s, lb, "{", "}")
            if "operator()" in blank_nested(s[lb + 1:rb]):
                continue   # predicate functor: its call sites are handled by the find_if rule
            sub_pre, sub_def, _ = _struct_body_to_c(s[lb + 1:rb], m.group(2), type_map, drop_types, extra_members)
            pre += sub_pre + [sub_def]
            continue
        m = re.match(r"enum\s*(\w*)\s*\{", s)
        if m:
            lb = s.index("{"); rb = match_close(s, lb, "{", "}")
            tail = s[rb + 1:].strip().rstrip(";").strip()
            ename = m.group(1)
            if ename:
                pre.append("typedef enum %s {%s} %s;" % (ename, s[lb + 1:rb], ename))
                if tail:
                    fields.append("%s %s;" % (ename, tail)); members.append(tail)
            else:
                pre.append("enum {%s};" % s[lb + 1:rb])
            continue
        if s.startswith("typedef"):
            if "<" in s or "(" in s and "(*" not in s:
                continue
            pre.append(s)
            continue
        if s.startswith("static "):
            continue
        if "(" in s and "(*" not in s:
            continue  # member function (declaration or inline definition), constructor, destructor
        if s.endswith("}"):
            continue
        # data member(s)
        decl = s.rstrip(";").strip()
        mv = re.match(r"std::vector\s*<\s*(.+)\s*>\s*(\w+)$", decl)
        if mv:
            ty = mv.group(1).strip(); nm = mv.group(2)
            ty = type_map.get(ty, ty)
            if ty in drop_types:
                continue
            fields.append("%s *%s; size_t %s_size;" % (ty, nm, nm)); members += [nm, nm + "_size"]
            continue
        mt = re.match(r"([\w:]+\s*<.*>)\s*(\w+)$", decl)
        if mt:
            ty = re.sub(r"\s+", "", mt.group(1))
            key = ty
            if key in type_map:
                fields.append("%s %s;" % (type_map[key], mt.group(2))); members.append(mt.group(2))
            continue
        ty0 = decl.split()[0] if decl.split() else ""
        if ty0 in drop_types or decl.split()[0:1] == ["const"] and decl.split()[1] in drop_types and "*" not in decl:
            continue
        for k, v in type_map.items():
            decl = re.sub(r"(?<![\w:])%s(?![\w:<])" % re.escape(k), v, decl)
        fields.append(decl + ";")
        # declarator names
        dd = re.sub(r"\[[^\]]*\]", "", decl)
        parts = dd.split(",")
        first = parts[0].strip()
        mfp = re.search(r"\(\s*\*\s*(\w+)\s*\)", first)
        if mfp:
            members.append(mfp.group(1))
        else:
            members.append(re.findall(r"\w+", first)[-1])
        for p in parts[1:]:
            w = re.findall(r"\w+", p)
            if w:
                members.append(w[-1])
    for k, v in extra_members.get(name, {}).items():
        fields.append(v); members.append(k)
    d = "typedef struct %s %s;\nstruct %s {\n    %s\n};" % (name, name, name, "\n    ".join(fields))
    return pre, d, members


def blank_nested(body):
    """Class body with nested struct/class definitions removed."""
    out = []; i = 0; n = len(body); pat = re.compile(r"\b(struct|class)\s+\w+[^;{()]*\{")
    while i < n:
        m = pat.match(body, i) if (i == 0 or not (body[i - 1].isalnum() or body[i - 1] == "_")) else None
        if m:
            rb = match_close(body, m.end() - 1, "{", "}")
            j = rb + 1
            mm = re.match(r"\s*;", body[j:])
            i = j + (mm.end() if mm else 0)
            continue
        out.append(body[i]); i += 1
    return "".join(out)


def enum_to_c(text, name, path=""):
    ms = [m for m in re.finditer(r"\benum\s+%s\s*\{" % re.escape(name), text)]
    if len(ms) != 1:
        raise ExtractionError("enum %s: %d definitions in %s" % (name, len(ms), path))
    lb = ms[0].end() - 1
    rb = match_close(text, lb, "{", "}")
    return "typedef enum %s {%s} %s;" % (name, text[lb + 1:rb], name)


def parse_decl(decl):
    """'uint8_t a, *b, c[4]' -> [(name, basetype, is_pointer, array_dim or None)]; function pointers -> pointer."""
    decl = decl.strip().rstrip(";").strip()
    m = re.search(r"\(\s*\*\s*(\w+)\s*\)\s*\(", decl)
    if m:
        return [(m.group(1), "fnptr", True, None)]
    parts = [p.strip() for p in decl.split(",")]
    first = parts[0]
    m = re.match(r"(.*?)([\*\s]*)(\w+)\s*(\[[^\]]*\])?$", first, re.S)
    base = re.sub(r"\s+", " ", m.group(1)).strip()
    out = [(m.group(3), base, "*" in m.group(2), m.group(4)[1:-1] if m.group(4) else None)]
    for p in parts[1:]:
        m2 = re.match(r"([\*\s]*)(\w+)\s*(\[[^\]]*\])?$", p, re.S)
        out.append((m2.group(2), base, "*" in m2.group(1), m2.group(3)[1:-1] if m2.group(3) else None))
    return out


def eq_function(struct_name, struct_def, known_structs):
    """C text of `static bool spec_<S>_eq(const S *a, const S *b)`: typed field-wise equality generated from the
    extracted struct definition (doubles: equal or both NaN; arrays: loops; nested known structs: their comparator)."""
    body = struct_def[struct_def.index("{") + 1:struct_def.rindex("}")]
    lines = []
    for d in [x for x in body.split(";") if x.strip()]:
        for name, base, isptr, dim in parse_decl(d):
            b = base.replace("const ", "").strip()
            if name.startswith("_padding"):
                continue
            def cmp(ea, eb):
                if isptr:
                    return "%s == %s" % (ea, eb)
                if b in ("double", "float"):
                    return "(%s == %s || (%s != %s && %s != %s))" % (ea, eb, ea, ea, eb, eb)
                if b in known_structs:
                    return "spec_%s_eq(&%s, &%s)" % (b, ea, eb)
                return "%s == %s" % (ea, eb)
            if dim is not None and not isptr:
                lines.append("    for(size_t k = 0; k < (size_t)(%s); k++) ok = ok && %s;" % (dim, cmp("a->%s[k]" % name, "b->%s[k]" % name)))
            else:
                lines.append("    ok = ok && %s;" % cmp("a->" + name, "b->" + name))
    return "static bool spec_%s_eq(const %s *a, const %s *b)\n{\n    bool ok = true;\n%s\n    return ok;\n}" % (
        struct_name, struct_name, struct_name, "\n".join(lines))
