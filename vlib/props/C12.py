"""C12 - Bank select + program change pick the documented instrument, with fallbacks (Route B: prefix of realTime_NoteOn)."""
from vlib.pipeline import Group
from vlib import extract_play

LEVEL = "proof"
MANIFEST = dict(
    category="proof",
    text="Contract on the instrument-resolution prefix of the real OPNMIDIplay::realTime_NoteOn (text from the signature to the anchor `MIDIchannel::NoteInfo::Phys voices[`, extracted on every run): for every channel/note/velocity byte, every channel state in the table invariant, every synth mode and every content of the bank map (ghost view over the three keys the fallback may ask for): bank number = MSB*256+LSB (GS: LSB ignored), percussion = program (+128 for XG SFX) with the key as entry, the instrument used is the first sounding one of [bank, bank with the low LSB bits cleared, bank 0 of the same kind], otherwise the note is blank; the entry index is < 128; drum key fixes the tone; velocity offset and clamp 1..127.",
    design_ref="DESIGN.md A.1 / C12",
    level_note="Scoped to instrument resolution. Not covered: the call of OPN2::setPatch from noteUpdate's Upd_Patch branch (setPatch itself is under contract in C02: it uploads exactly the 30 registers of the timbre it is given), the allocation suffix of realTime_NoteOn, 'an instrument replaced through the bank API is the one subsequently played' (bank map internals: assumed contract bankmap_find over a ghost view), the RSXX after-touch shortcut. Assumed: noteOff, noteUpdate, debug hook. Three if-statements of debug-message bookkeeping (std::set) are dropped by rule R9 (checked on every run to assign none of bank/midiins/ains/tone/velocity/bnk/note/channel).",
    technique="CBMC code contracts (DFCC) on a mechanically extracted statement range of a C++ member function")
TRUSTED = ["extraction rules of vlib/cxx2c.py incl. R9 (drop debug bookkeeping) and R12 (statement range)", "harness/env_play.h", "stub with body: bankmap_find = lookup in the ghost view of the bank map", "assumed contracts: noteOff, noteUpdate, find_activenote"]
ASSUMPTIONS = ["channel table has 16 entries"]
F = "src/opnmidi_midiplay.cpp"
EPI_A = "    g_args.channel = channel; g_args.note = note; g_args.velocity = velocity; g_args.reached = true;\n    return true;"
EPI_B = ("    g_res.bank = bank; g_res.midiins = midiins; g_res.ains = ains; g_res.tone = tone; g_res.velocity = velocity;\n"
         "    g_res.isPercussion = isPercussion; g_res.channel = channel; g_res.note = note; g_res.reached = true;\n    return true;")
R7 = [(r"notes_iterator i = g_play\.m_midiChannels\[channel\]\.find_activenote\(note\);", "pl_cell_NoteInfo *i = MIDIchannel_find_activenote(&g_play.m_midiChannels[channel], note);   /* R7 */"),
      (r"!i\.is_end\(\)", "(i != NULL) /* R7 */")]
SPEC_A = dict(file=F, name="OPNMIDIplay::realTime_NoteOn", cls="OPNMIDIplay", rename="realTime_NoteOn_args", must=["R10", "R3", "R12"],
              cut_at=r"\n[ \t]*MIDIchannel &midiChan = m_midiChannels\[channel\];", epilogue=EPI_A, post=R7)
SPEC_B = dict(file=F, name="OPNMIDIplay::realTime_NoteOn", cls="OPNMIDIplay", rename="realTime_NoteOn_resolve", must=["R10", "R12", "R9"],
              cut_from=r"\n[ \t]*size_t midiins = midiChan\.patch;", cut_at=r"\n[ \t]*MIDIchannel::NoteInfo::Phys voices\[", epilogue=EPI_B,
              params_override="uint8_t channel, uint8_t note, uint8_t velocity, MIDIchannel *midiChan__p, Synth *synth__p", ref_params=["midiChan", "synth"],
              drop_if=[r"caughtMissingBank && hooks\.onDebugMessage", r"^hooks\.onDebugMessage$"],
              protected=["bank", "midiins", "ains", "tone", "velocity", "bnk", "note", "channel", "isPercussion"],
              post=[(r"BankMap::iterator b = synth\.m_insBanks\.find\(", "const Bank *b = bankmap_find(   /* R7: map iterator -> entry pointer */ "),
                    (r"b != synth\.m_insBanks\.end\(\)", "b != NULL"), (r"&b->second", "b")])


def _extract(wd):
    return extract_play.emit(wd, [SPEC_A, SPEC_B])


def groups(tier):
    CK = ["--bounds-check", "--pointer-check", "--div-by-zero-check", "--signed-overflow-check", "--undefined-shift-check", "--no-malloc-may-fail"]
    return [Group("noteon_args_contract", "harness/noteon_h.c", "h_realTime_NoteOn_args", enforce="realTime_NoteOn_args",
                  replace=["noteOff", "noteUpdate"], extract=_extract, object_bits=9,
                  required=[r"postcondition", r"assigns"], timeout=900, funcs=["OPNMIDIplay::realTime_NoteOn (range A: argument handling)"]),
            Group("noteon_resolution_contract", "harness/noteon_h.c", "h_realTime_NoteOn_resolve", enforce="realTime_NoteOn_resolve",
                  replace=[], extract=_extract, object_bits=9, checks=CK,
                  unwindset="spec_lookup.0:4,spec_candidate.0:4", required=[r"postcondition", r"assigns"], timeout=900,
                  funcs=["OPNMIDIplay::realTime_NoteOn (range B: instrument resolution)"],
                  note="pointer-arithmetic range check off: each candidate bank is a one-entry window (bank = entry - index)")]
