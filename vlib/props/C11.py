"""C11 - Loudness controls are monotone and stay within the chip's level range (Route B: OPN2::touchNote)."""
from vlib.pipeline import Group
from vlib import extract_play

LEVEL = "proof"
MANIFEST = dict(
    category="proof",
    text="Contract on the real OPN2::touchNote body (extracted mechanically on every run) with the chips replaced by a register tap: exactly the four TL registers of the channel are written, every value is in 0..127, table indices stay in range and nothing else is assigned, zero velocity/volume/expression/master volume silences every carrier, modulators untouched without modulator scaling/brightness - for every argument in the 7-bit ranges, every volume model, algorithm, operator level, chip count. Monotonicity: see level_note.",
    design_ref="DESIGN.md C11",
    level_note="Trusted: extraction rules; environment (register tap, typed vectors); libm log/sqrt replaced by stated range contracts; carrier table transcribed from the YM2612 manual. The 7-bit argument ranges are preconditions (obligation of the callers, C03).",
    technique="CBMC code contracts (DFCC) on the mechanically extracted member function; exhaustive native evaluation of the same extracted text for the monotonicity lemma")
TRUSTED = ["extraction rules of vlib/cxx2c.py", "harness/env_opn2.h (register tap, typed storage for std::vector members)",
           "assumed contract: log (range on [1108076, 127^4])", "assumed contract: sqrt ([0,1] -> [0,1])", "CBMC's model of round()"]
ASSUMPTIONS = []
F = "src/opnmidi_opn2.cpp"
TAP = [(r"g_synth\.m_chips\[(\w+)\]->writeReg\(", r"chip_writeReg(\1, "), ]
COMMON = [
    dict(file=F, kind="table", name="s_dmx_volume_model"),
    dict(file=F, kind="table", name="W9X_volume_mapping_table"),
    dict(file=F, kind="table", name="g_noteChannelsMap"),
    dict(file=F, kind="enum_anon", name="OPN_PANNING_LEFT"),
    dict(file=F, name="getOpnChannel", cls=None, must=["R4"], rename="getOpnChannel_"),
    dict(file=F, name="OPN2::writeRegI", cls="OPN2", static=True, post=TAP),
    dict(file=F, name="OPN2::writePan", cls="OPN2", static=True, post=[(r"g_synth\.m_chips\[(\w+)\]->writePan\(", r"chip_writePan(\1, ")]),
]
REFCALL = "#define getOpnChannel(a, b, c, d) getOpnChannel_((a), &(b), &(c), &(d))   /* R4: call sites of a by-reference callee */\n"


def _extract(wd):
    info = extract_play.emit(wd, COMMON + [dict(file=F, name="OPN2::touchNote", cls="OPN2", must=["R10", "R2", "R3"])], prelude_after={"getOpnChannel_": REFCALL})
    return info


def groups(tier):
    return [Group("touchNote_contract", "harness/opn2_h.c", "h_touchNote", enforce="touchNote", replace=["log", "sqrt"],
                  extract=_extract, required=[r"postcondition", r"assigns", r"TAP chip index"], timeout=600,
                  funcs=["OPN2::touchNote", "OPN2::writeRegI", "getOpnChannel"], checks=None,
                  flags=["--conversion-check", "--float-overflow-check", "--nan-check"])]
