"""C11 - Loudness controls are monotone and stay within the chip's level range (Route B: OPN2::touchNote)."""
from vlib.pipeline import Group
from vlib import extract_play

LEVEL = "proof"
MANIFEST = dict(
    category="proof",
    text="Contract on the real OPN2::touchNote body (extracted mechanically on every run) with the chips replaced by a register tap: exactly the four TL registers of the channel are written, every value is in 0..127, table indices stay in range and nothing else is assigned, zero velocity/volume/expression/master volume silences every carrier, modulators untouched without modulator scaling/brightness - for every argument in the 7-bit ranges, every volume model, algorithm, operator level, chip count. Monotonicity: see level_note.",
    design_ref="DESIGN.md C11",
    level_note="Trusted: extraction rules; environment (register tap, typed vectors); libm log/sqrt replaced by stated range contracts; carrier table transcribed from the YM2612 manual. The 7-bit argument ranges are preconditions of touchNote; its caller (the Upd_Volume range of noteUpdate) is proved to establish them from the table invariant that C03 proves inductive, and to hand over the documented brightness (percussion 127; CC74 itself with the full-range flag; otherwise doubled below 64 and 127 from 64).",
    technique="CBMC code contracts (DFCC) on the mechanically extracted member function; exhaustive native evaluation of the same extracted text for the monotonicity lemma")
TRUSTED = ["extraction rules of vlib/cxx2c.py", "harness/env_opn2.h (register tap, typed storage for std::vector members)",
           "assumed contract: log (range on [1108076, 127^4])", "assumed contract: sqrt ([0,1] -> [0,1])", "CBMC's model of round()"]
ASSUMPTIONS = []
F = "src/opnmidi_opn2.cpp"
TAP = [(r"g_synth\.m_chips\[(\w+)\]->writeReg\(", r"chip_writeReg(\1, "), ]
COMMON = [
    dict(file=F, kind="table", name="s_dmx_volume_model"),
    dict(file=F, kind="table", name="W9X_volume_mapping_table"),
    dict(file=F, kind="table", name="g_noteChannelsMap"),
    dict(file=F, kind="enum_anon", name="OPN_PANNING_LEFT"),
    dict(file=F, name="getOpnChannel", cls=None, must=["R4"], rename="getOpnChannel_"),
    dict(file=F, name="s_commonFreq", cls=None, rename="s_commonFreq_"),
    dict(file=F, name="OPN2::writeRegI", cls="OPN2", static=True, post=TAP),
    dict(file=F, name="OPN2::writePan", cls="OPN2", static=True, post=[(r"g_synth\.m_chips\[(\w+)\]->writePan\(", r"chip_writePan(\1, ")]),
]
REFCALL = "#define getOpnChannel(a, b, c, d) getOpnChannel_((a), &(b), &(c), &(d))   /* R4: call sites of a by-reference callee */\n"


def extract_opn2(wd, fns):
    specs = list(COMMON)
    for name, kw in fns:
        d = dict(file=F, name=name, cls="OPN2"); d.update(kw); specs.append(d)
    return extract_play.emit(wd, specs, prelude_after={"getOpnChannel_": REFCALL})


def _extract(wd):
    info = extract_play.emit(wd, COMMON + [dict(file=F, name="OPN2::touchNote", cls="OPN2", must=["R10", "R2", "R3"])], prelude_after={"getOpnChannel_": REFCALL})
    return info


def extra(tier, workroot):
    """Monotonicity lemma: exhaustive native evaluation of the extracted touchNote text (enumeration, labelled so)."""
    import os, subprocess, tempfile, time
    from vlib.pipeline import VERIF, REPO, ExtractionError
    wd = tempfile.mkdtemp(prefix="c11enum_", dir=workroot)
    name = "monotonicity_exhaustive_native_enumeration"
    try:
        info = _extract(wd)
    except ExtractionError as e:
        return [dict(name=name, status="tool", detail="extraction broke: %s" % e)]
    exe = os.path.join(wd, "enum")
    cc = ["gcc", "-O2", "-o", exe, os.path.join(VERIF, "harness/c11_enum.c"), "-I" + wd, "-I" + os.path.join(VERIF, "harness"),
          "-I" + os.path.join(REPO, "include"), "-lm"]
    r = subprocess.run(cc, capture_output=True, text=True)
    if r.returncode != 0:
        return [dict(name=name, status="tool", detail="native compile failed: " + r.stderr[-800:])]
    t0 = time.time()
    try:
        r = subprocess.run([exe, "1"], capture_output=True, text=True, timeout=1500)
    except subprocess.TimeoutExpired:
        return [dict(name=name, status="tool", detail="enumeration timeout")]
    out = r.stdout.strip().splitlines()[-1] if r.stdout.strip() else ""
    if r.returncode == 0 and out.startswith("ENUM ok"):
        n = int(out.split("evaluations=")[1].split()[0])
        return [dict(name=name, status="ok", obligations=1, discharged=1, evaluations=n, exhaustive=True, wall_s=round(time.time() - t0, 1),
                     detail=out + " - every (velocity, volume, expression, master volume) in 0..127^4 x 5 volume models; every level x operator byte x algorithm x modulator scaling; every brightness",
                     method="exhaustive native execution of the extracted real function body (not deduction)")]
    if "ENUM VIOLATION" in out:
        os.makedirs(os.path.join(VERIF, "replays", "C11"), exist_ok=True)
        path = os.path.join(VERIF, "replays", "C11", "monotonicity_enumeration.json")
        import json
        json.dump(dict(property="C11", obligation=name, failing_input=out, native_replay=dict(reproduced=True, how="the enumeration executes the extracted real body natively")), open(path, "w"), indent=1)
        return [dict(name=name, status="violated", detail=out, replay=path, reproduced=True)]
    return [dict(name=name, status="tool", detail="unexpected output rc=%s %s %s" % (r.returncode, out, r.stderr[-300:]))]


def replay(g, obligation, wit, workroot):
    """Level-1 replay: the extracted real touchNote text is executed natively on the counterexample's values."""
    import os, subprocess, tempfile
    from vlib.pipeline import VERIF, REPO
    def num(k, d=0):
        v = wit.get(k)
        if v is None:
            return d
        v = str(v)
        if "VOLUME_" in v:
            return ["VOLUME_Generic", "VOLUME_NATIVE", "VOLUME_DMX", "VOLUME_APOGEE", "VOLUME_9X"].index(v.split("/")[-1].strip())
        if v in ("TRUE", "FALSE"):
            return 1 if v == "TRUE" else 0
        return int(v.rstrip("ul"))
    args = [num("in_c"), num("in_v"), num("in_cv"), num("in_ce"), num("in_br", 127), num("in_mv", 127), num("in_model"), num("in_scale"),
            max(1, num("in_nchips", 1)), num("in_alg") & 7] + [num("in_op_level[%dl]" % k) for k in range(4)]
    wd = tempfile.mkdtemp(prefix="c11replay_", dir=workroot)
    _extract(wd)
    exe = os.path.join(wd, "replay")
    r = subprocess.run(["gcc", "-O1", "-fsanitize=address,undefined", "-o", exe, os.path.join(VERIF, "harness/c11_replay.c"), "-I" + wd,
                        "-I" + os.path.join(VERIF, "harness"), "-I" + os.path.join(VERIF, "contracts"), "-I" + os.path.join(REPO, "include"), "-lm"],
                       capture_output=True, text=True)
    if r.returncode != 0:
        return dict(reproduced=False, error="replay compile failed: " + r.stderr[-500:])
    r = subprocess.run([exe] + [str(a) for a in args], capture_output=True, text=True, timeout=30)
    return dict(reproduced=(r.returncode == 1 and "REPLAY-VIOLATION" in r.stdout), level="extracted-text replay (native, ASan/UBSan)",
                args=args, output=r.stdout[-600:], stderr=r.stderr[-300:])


VOLRANGE = dict(file="src/opnmidi_midiplay.cpp", name="OPNMIDIplay::noteUpdate", cls=None, rename="noteUpdate_volume", must=["R12", "R2", "R3"],
                cut_from=r"\n[ \t]*if\(props_mask & Upd_Volume\)\n", cut_at=r"\n[ \t]*if\(props_mask & Upd_Pitch\)\n", epilogue="    return;",
                params_override="size_t midCh, uint16_t c, uint8_t vol, unsigned props_mask, MIDIchannel *m_midiChannels, bool fullRange", sig_post=[(r"^bool$", "void")],
                post=[(r"synth\.touchNote\(", "touchNote_record("), (r"m_setup\.fullRangeBrightnessCC74", "fullRange")])


def _extract_vol(wd):
    info = extract_play.emit(wd, [VOLRANGE])
    return info


def groups(tier):
    return [Group("touchNote_contract", "harness/opn2_h.c", "h_touchNote", enforce="touchNote", replace=["log", "sqrt"],
                  extract=_extract, required=[r"postcondition", r"assigns", r"TAP chip index"], timeout=600, object_bits=9,
                  funcs=["OPN2::touchNote", "OPN2::writeRegI", "getOpnChannel"], checks=None,
                  flags=["--conversion-check", "--float-overflow-check", "--nan-check"]),
            Group("noteUpdate_volume_range_contract", "harness/opn2_h.c", "h_noteUpdate_volume", enforce="noteUpdate_volume", replace=["touchNote_record"],
                  extract=_extract_vol, defines=["WITH_VOLUME_RANGE"], object_bits=9, required=[r"postcondition", r"assigns", r"precondition"], timeout=600,
                  checks=["--bounds-check", "--pointer-check", "--div-by-zero-check", "--signed-overflow-check", "--undefined-shift-check", "--no-malloc-may-fail", "--conversion-check"],
                  funcs=["OPNMIDIplay::noteUpdate (range: the Upd_Volume branch)"],
                  note="caller side of touchNote: arguments inside its precondition under the table invariant; brightness mapping of CC74")]
