"""C14 - Instances are deterministic and isolated (Route A: the Nuked OPN2 core, src/chips/nuked/ym3438.c, in place)."""
import json, os, re, subprocess, tempfile, time
from vlib.pipeline import Group, VERIF, REPO, GUARD, ExtractionError
from vlib import nuked_env

LEVEL = "proof"
SRC = "src/chips/nuked/ym3438.c"
MANIFEST = dict(
    category="proof",
    text="Scope: the Nuked OPN2 core (src/chips/nuked/ym3438.c, the C file itself, compiled unchanged) - the emulator behind OPNMIDI_EMU_NUKED_YM3438/YM2612 - sequential part of the statement. Frame contracts (DFCC enforce, every chip state in the representation invariant, every argument) on every entry point the library's wrapper calls: OPN2_Reset, OPN2_SetChipType, OPN2_WriteBuffered, OPN2_WritePan, OPN2_Generate, and on their callees OPN2_Write, OPN2_Clock (with its 16 sub-functions inlined), OPN2_SetMute, and the remaining register-level entry points OPN2_Read, OPN2_SetTestPin, OPN2_ReadTestPin, OPN2_ReadIRQPin: a call assigns nothing but the chip object it is given and its two output samples; the representation invariant is established by OPN2_Reset from arbitrary memory and preserved by every call (induction over call histories), and under it every access lands in the chip, the arguments or the constant tables. Together with the discharged obligation 'the translation unit has no mutable object of static lifetime' (compiled symbol table) this gives: state and samples after a call are a function of (chip state before, arguments) only; calls on different chips commute and share no writable memory.",
    design_ref="DESIGN.md A.9",
    level_note="Not covered: OPN2_GenerateResampled/OPN2_GenerateStream/OPN2_GenerateStreamMix of the same file (unused by the library, which resamples in OPNChipBaseT); frame contracts for the other emulator cores (for the MAME YM2612 core only the symbol-table obligation is evaluated: it fails on the shared lookup tables tl_tab/sin_tab/lfo_pm_table that init_tables() rebuilds on every chip creation - open known finding KF-C14-2, ThreadSanitizer demonstration in replay/mame_race.cpp - and reports any further mutable static object as a violation; MAME OPNA, Gens, GX, NP2, PMDWin, YMFM, VGM dumper), the C++ wrapper classes and resampler (OPNChipBaseT), OPNMIDIplay/OPN2 state above the chip (per-instance by construction: opn2_init allocates one player, no file-scope state is proved absent there), the process-wide error string of opnmidi_private.cpp, and actual thread schedules (the frame + no-shared-state facts imply race freedom for this core only by the hand argument of DESIGN.md A.9). Termination of `while(skip--)` and of the queue flush is not proved. Signed-shift/overflow checks are off for this file (the core relies on two's-complement shifts throughout; CBMC's bit-precise semantics is the machine's).",
    technique="CBMC code contracts (DFCC frame conditions + inductive representation invariant, loop contracts) on the C emulator core in place; symbol-table obligation for shared mutable state")
TRUSTED = ["CBMC's memset model (OPN2_Reset)", "loop-contract text of contracts/opnmidi_verif_contracts.h attached through the VERIF_LOOP markers",
           "hand composition: frame + invariant + no mutable static object ==> function of own state, commutation, race freedom (DESIGN.md A.9)"]
ASSUMPTIONS = ["OPN2_WritePan is called with channel < 6 (OPN2::setPan passes the chip channel 0..5; the core does not check it)",
               "OPN2_Reset is called with clock != 0 (the wrapper passes the family's master clock constant)",
               "undefined-shift and signed-overflow checks disabled for ym3438.c (machine semantics = CBMC's two's complement)",
               "partial correctness for the two unbounded loops of OPN2_WriteBuffered / OPN2_Generate"]

CHECKS = ["--bounds-check", "--pointer-check", "--pointer-primitive-check", "--div-by-zero-check", "--no-malloc-may-fail",
          "--no-undefined-shift-check", "--no-signed-overflow-check"]
EXTRA_NAMES = ["nuked_no_mutable_static_objects", "mame_no_mutable_static_objects"]
REGW = "OPN2_DoRegWrite.0:9,OPN2_DoRegWrite.1:5,OPN2_DoRegWrite.2:9"


def _extract(wd):
    return nuked_env.emit(wd)


def groups(tier):
    H = "harness/nuked_h.c"
    def G(fn, **kw):
        d = dict(enforce=fn, extract=_extract, object_bits=9, checks=CHECKS, required=[r"assigns", r"postcondition"], funcs=[fn], timeout=900)
        d.update(kw)
        return Group("nuked_" + fn.replace("OPN2_", "") + "_frame", H, "h_" + fn, **d)
    return [
        G("OPN2_Clock", pre_unwindset=REGW, funcs=["OPN2_Clock", "OPN2_DoIO", "OPN2_DoRegWrite", "OPN2_PhaseCalcIncrement", "OPN2_PhaseGenerate", "OPN2_EnvelopeSSGEG",
                                                  "OPN2_EnvelopeADSR", "OPN2_EnvelopePrepare", "OPN2_EnvelopeGenerate", "OPN2_UpdateLFO", "OPN2_FMPrepare", "OPN2_ChGenerate",
                                                  "OPN2_ChOutput", "OPN2_FMGenerate", "OPN2_DoTimerA", "OPN2_DoTimerB", "OPN2_KeyOn"],
          note="whole chip clock with its sub-functions inlined; the three constant-bound loops of OPN2_DoRegWrite unwound completely (unwinding assertions)"),
        G("OPN2_Write"),
        G("OPN2_WritePan"),
        G("OPN2_WriteBuffered", replace=["OPN2_Clock", "OPN2_Write"], loops=True, defines=["NUKED_TYPED_ENV"], required=[r"assigns", r"postcondition", r"loop_invariant_step"]),
        G("OPN2_Generate", replace=["OPN2_Clock", "OPN2_Write"], loops=True, defines=["NUKED_TYPED_ENV"], required=[r"assigns", r"postcondition", r"loop_invariant_step", r"loop_decreases|decreases"]),
        G("OPN2_Reset", pre_unwindset="OPN2_Reset.0:25,OPN2_Reset.1:7", note="establishes the invariant from arbitrary memory"),
        G("OPN2_SetMute", pre_unwindset="OPN2_SetMute.0:8"),
        G("OPN2_SetChipType", required=[r"postcondition"]),
        G("OPN2_Read"), G("OPN2_SetTestPin"), G("OPN2_ReadTestPin", required=[r"postcondition"]), G("OPN2_ReadIRQPin", required=[r"postcondition"]),
    ]


def _is_const(t):
    """const-qualified object type, read from the type itself (an array is const when its element type is): the pretty-printed
    text is not enough - `static const char *names[]` prints as 'const char *[2]' and is a MUTABLE array of pointers."""
    if "#constant" in (t.get("namedSub") or {}):
        return True
    if t.get("id") == "array" and t.get("sub"):
        return _is_const(t["sub"][0])
    return False


def _static_objects(workroot, rel, min_funcs, min_objs):
    """(objects, functions) of static lifetime defined by the translation unit `rel`, from goto-cc's symbol table."""
    wd = tempfile.mkdtemp(prefix="c14sym_", dir=workroot)
    src = os.path.join(wd, "tu.c")
    open(src, "w").write('#include "%s"\nvoid verif_entry(void) {}\n' % rel)
    gb = os.path.join(wd, "tu.gb")
    r = subprocess.run(["goto-cc", "--function", "verif_entry", "-D" + GUARD, "-I" + os.path.join(VERIF, "contracts"), "-I" + os.path.join(REPO, "src"),
                        "-I" + os.path.dirname(os.path.join(REPO, "src", rel)), src, "-o", gb], capture_output=True, text=True)
    if r.returncode != 0:
        raise ExtractionError("goto-cc failed: " + (r.stderr + r.stdout)[-800:])
    r = subprocess.run(["goto-instrument", "--show-symbol-table", "--json-ui", gb], capture_output=True, text=True)
    try:
        st = [e["symbolTable"] for e in json.loads(r.stdout) if "symbolTable" in e][0]
    except Exception as e:
        raise ExtractionError("cannot read the symbol table: %r" % e)
    objs = []; funcs = 0
    for k, s in st.items():
        loc = s.get("location", {}) or {}
        if not str(loc.get("file", "")).endswith(rel):
            continue
        if s.get("isType") or s.get("isMacro"):
            continue
        if s.get("type", {}).get("id") == "code":
            funcs += 1
            continue
        if s.get("isStaticLifetime"):
            objs.append((k, s.get("prettyType", ""), loc.get("line"), _is_const(s.get("type", {}))))
    if funcs < min_funcs or len(objs) < min_objs:
        raise ExtractionError("vacuity guard: only %d functions / %d static objects seen in the symbol table of %s" % (funcs, len(objs), rel))
    return objs, funcs


def extra(tier, workroot):
    """Obligation 'no shared mutable state': every object of static lifetime that the compiled translation unit defines is
    const-qualified.  Read from the symbol table goto-cc produces for the real file (file-scope and function-static objects)."""
    return [_nuked_statics(workroot), _mame_statics(workroot)]


def _nuked_statics(workroot):
    name = "nuked_no_mutable_static_objects"
    t0 = time.time()
    try:
        objs, funcs = _static_objects(workroot, "chips/nuked/ym3438.c", 25, 10)
    except ExtractionError as e:
        return dict(name=name, status="tool", detail=str(e))
    mutable = [(k, t, l) for (k, t, l, c) in objs if not c]
    if not mutable:
        return dict(name=name, status="ok", obligations=len(objs), discharged=len(objs), wall_s=round(time.time() - t0, 1),
                    detail="%d objects of static lifetime defined by ym3438.c, all const-qualified; %d functions" % (len(objs), funcs),
                    method="goto-cc symbol table of the real translation unit (static fact supporting the frame contracts)")
    os.makedirs(os.path.join(VERIF, "replays", "C14"), exist_ok=True)
    path = os.path.join(VERIF, "replays", "C14", name + ".json")
    rec = dict(property="C14", obligation=name, description="mutable object(s) of static lifetime in the Nuked core: shared by every chip of the process",
               verifier_output=["%s : %s (line %s)" % m for m in mutable], native_replay=None)
    rep = False
    try:
        from vlib import libreplay
        rr = libreplay.run_driver(workroot, "replay/isolation_driver.cpp", [os.path.join(REPO, "fm_banks", "gm.wopn")])
        rep = (rr["rc"] == 1 and "REPLAY-VIOLATION" in rr["stdout"])
        rec["native_replay"] = dict(reproduced=rep, driver="replay/isolation_driver.cpp", output=rr["stdout"][-600:], stderr=rr["stderr"][-300:])
    except Exception as e:  # pragma: no cover
        rec["native_replay"] = dict(reproduced=False, error=repr(e))
    json.dump(rec, open(path, "w"), indent=1)
    return dict(name=name, status="violated", detail="mutable static objects: %s" % mutable, replay=path, reproduced=rep)


def _mame_statics(workroot):
    """Same obligation for the MAME YM2612 core (the default emulator).  It does NOT hold there: the open known finding KF-C14-2
    lists the objects; anything else is a violation.  (No frame contract is claimed for this core.)"""
    name = "mame_no_mutable_static_objects"
    t0 = time.time()
    try:
        objs, funcs = _static_objects(workroot, "chips/mame/mame_ym2612fm.c", 40, 10)
    except ExtractionError as e:
        return dict(name=name, status="tool", detail=str(e))
    mutable = [(k, t, l) for (k, t, l, c) in objs if not c]
    kf = [k for k in json.load(open(os.path.join(VERIF, "known_findings.json"))).get("findings", [])
          if k.get("property") == "C14" and k.get("status") == "open" and k.get("extra") == name]
    listed = set(o for k in kf for o in k.get("objects", []))
    new = [m for m in mutable if m[0] not in listed]
    if new:
        os.makedirs(os.path.join(VERIF, "replays", "C14"), exist_ok=True)
        path = os.path.join(VERIF, "replays", "C14", name + ".json")
        json.dump(dict(property="C14", obligation=name, description="mutable object(s) of static lifetime in the MAME YM2612 core that the known finding does not list",
                       verifier_output=["%s : %s (line %s)" % m for m in new], native_replay=None), open(path, "w"), indent=1)
        return dict(name=name, status="violated", detail="mutable static objects not covered by a known finding: %s" % new, replay=path, reproduced=False)
    lines = ["KNOWN-FINDING: property=C14 %s [%s]" % (k["what_fails"], k["id"]) for k in kf if any(m[0] in k.get("objects", []) for m in mutable)]
    # counted as obligations of this run: one per object OUTSIDE the known finding's witness class (each must be const-qualified),
    # the way the CBMC groups count the run with the witness class excluded.  The objects the open finding names are NOT
    # counted as discharged anywhere: they are reported under known_finding_undischarged.
    claimed = [o for o in objs if o[0] not in listed]
    return dict(name=name, status="ok", obligations=len(claimed), discharged=sum(1 for o in claimed if o[3]), wall_s=round(time.time() - t0, 1), known_findings=lines,
                known_finding_undischarged=sorted(m[0] for m in mutable),
                detail="%d objects of static lifetime in mame_ym2612fm.c, %d mutable, all listed in the known finding: %s" % (len(objs), len(mutable), sorted(m[0] for m in mutable)),
                method="goto-cc symbol table of the real translation unit")


def replay(g, obligation, wit, workroot):
    """Library replay: two-instance isolation scenarios on the real library (A alone vs A with another Nuked instance working in between)."""
    from vlib import libreplay
    r = libreplay.run_driver(workroot, "replay/isolation_driver.cpp", [os.path.join(REPO, "fm_banks", "gm.wopn")])
    return dict(reproduced=(r["rc"] == 1 and "REPLAY-VIOLATION" in r["stdout"]), driver="replay/isolation_driver.cpp", output=r["stdout"][-600:], stderr=r["stderr"][-400:])
