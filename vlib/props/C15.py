"""C15 - WOPN/OPNI serialisation round-trips and never writes past its buffer (Route A, wopn_file.c in place)."""
from vlib.pipeline import Group

LEVEL = "proof"
MANIFEST = dict(
    category="proof",
    text="Function contracts on the real wopn_file.c (verified in place, no extraction): byte-precise postconditions and frames for the 16-bit codecs, WOPN_parseInstrument/WOPN_writeInstrument, the OPNI save/load/size functions, discharged by CBMC for all inputs; round-trip and load-save-load identities are lemmas over those contracts. Bank-file functions: see level_note.",
    design_ref="DESIGN.md C15",
    level_note="Trusted: CBMC's models of strncpy/memcpy/memcmp/malloc; spec functions in contracts/wopn_contracts.h; allocation succeeds; the four mutable magic-string pointers keep their initial value (stated precondition, invariant because no enforced frame contains them).",
    technique="CBMC code contracts (DFCC enforce/replace) on the in-place C source; lemmas over contracts")
SRC = "harness/wopn_h.c"
TRUSTED = ["CBMC built-in models of strncpy, memcpy, memcmp, malloc, calloc, free",
           "spec functions in contracts/wopn_contracts.h (written from the property statement and docs/wopn specification.txt)"]
ASSUMPTIONS = []
U = "strncpy.0:33,memcmp.0:12,memcpy.0:70,spec_name32_copied.0:33,spec_name32_parsed.0:32,spec_magic_is.0:12,ins_equal.0:33,ins_equal.1:5,name_repr.0:33"


def _g(name, entry, enforce=None, replace=(), **kw):
    kw.setdefault("unwind", 34)
    return Group(name, SRC, entry, enforce=enforce, replace=replace, **kw)


def leaf_groups():
    gs = []
    for f in ["toUint16LE", "toUint16BE", "toSint16BE", "fromUint16LE", "fromUint16BE", "fromSint16BE"]:
        gs.append(_g("leaf_" + f, "h_" + f, enforce=f, required=[r"postcondition"]))
    gs.append(_g("codec_inverse", "h_codec_inverse", required=[r"LEMMA"], funcs=["toUint16LE", "toUint16BE", "toSint16BE",
                                                                                  "fromUint16LE", "fromUint16BE", "fromSint16BE"]))
    return gs


def ins_groups():
    PW = ["WOPN_parseInstrument", "WOPN_writeInstrument"]
    return [
        _g("ins_parse_contract", "h_parseInstrument", enforce="WOPN_parseInstrument", required=[r"postcondition", r"assigns"]),
        _g("ins_write_contract", "h_writeInstrument", enforce="WOPN_writeInstrument", required=[r"postcondition", r"assigns"]),
        _g("ins_roundtrip_lemma", "h_ins_roundtrip", replace=PW, required=[r"ROUNDTRIP-V2", r"ROUNDTRIP-V1"], funcs=PW,
           note="lemma over the two contracts only (both calls replaced by their contracts)"),
        _g("ins_load_save_load_lemma", "h_ins_load_save_load", replace=PW, required=[r"LOADSAVELOAD"], funcs=PW),
    ]


def opni_groups():
    PW = ["WOPN_parseInstrument", "WOPN_writeInstrument"]
    return [
        _g("opni_calc_size", "h_CalculateInstFileSize", enforce="WOPN_CalculateInstFileSize", required=[r"postcondition"]),
        _g("opni_save_contract", "h_SaveInstToMem", enforce="WOPN_SaveInstToMem", replace=["WOPN_writeInstrument"],
           required=[r"postcondition", r"assigns"]),
        _g("opni_save_degenerate", "h_SaveInst_degenerate", required=[r"DEGENERATE"], funcs=["WOPN_SaveInstToMem"], unwind=80),
        _g("opni_load_contract", "h_LoadInstFromMem", enforce="WOPN_LoadInstFromMem", replace=["WOPN_parseInstrument"],
           required=[r"postcondition", r"assigns"]),
        _g("opni_roundtrip_lemma", "h_opni_roundtrip", replace=PW + ["WOPN_CalculateInstFileSize"], required=[r"OPNI save into", r"OPNI operator"],
           funcs=["WOPN_SaveInstToMem", "WOPN_LoadInstFromMem"],
           note="file code inlined, record codec and size calculator replaced by their contracts"),
        _g("opni_load_save_load_lemma", "h_opni_load_save_load", replace=PW + ["WOPN_CalculateInstFileSize"], required=[r"LSL identity"],
           funcs=["WOPN_SaveInstToMem", "WOPN_LoadInstFromMem"]),
    ]


def groups(tier):
    return leaf_groups() + ins_groups() + opni_groups()
