"""C15 - WOPN/OPNI serialisation round-trips and never writes past its buffer (Route A, wopn_file.c in place)."""
from vlib.pipeline import Group

LEVEL = "proof"
MANIFEST = dict(
    category="proof",
    text="Function contracts on the real wopn_file.c (verified in place, no extraction): byte-precise postconditions and frames for the 16-bit codecs, WOPN_parseInstrument/WOPN_writeInstrument, the OPNI save/load/size functions, discharged by CBMC for all inputs; round-trip and load-save-load identities are lemmas over those contracts. Bank-file functions WOPN_LoadBankFromMem/WOPN_SaveBankToMem: proved by loop-head cut points on the real text (base, step and exit case of every loop as a separate loop-free segment) plus pure arithmetic lemmas for the layout invariants: header fields, exact cursor/length bookkeeping, record (i,j,k) at offset header+names+size*(128*banks_before+k), success iff the block holds the whole layout, no access outside the block.",
    design_ref="DESIGN.md C15",
    level_note="Bank-file segments: unbounded in bank counts, block length and iterations, except the four data-moving segment families (bank-name body, record body of load and save) where the bank index is < 64 (the property's own domain); the whole-file round trip Load(Save(f)) == f is the composition of the per-record layout agreement, the record lemmas and the frames - that last composition step is by hand. WOPN_Init's contract is assumed. Trusted: CBMC's models of strncpy/memcpy/memcmp/malloc; spec functions in contracts/wopn_contracts.h; allocation succeeds; the four mutable magic-string pointers keep their initial value (stated precondition, invariant because no enforced frame contains them).",
    technique="CBMC code contracts (DFCC enforce/replace) on the in-place C source; lemmas over contracts")
SRC = "harness/wopn_h.c"
TRUSTED = ["assumed contract: WOPN_Init (fresh file with max(1,count) banks per slot, header fields zero) - its enforcement ran out of memory (calloc of symbolic count x 9 KB elements); stated in contracts/wopn_contracts.h",
           "assumed contract: WOPN_Free (frame only)", "byte-wise memcpy model in harness/wopn_seg_h.c (segment groups)", "CBMC built-in models of strncpy, memcpy, memcmp, malloc, calloc, free",
           "spec functions in contracts/wopn_contracts.h (written from the property statement and docs/wopn specification.txt)"]
ASSUMPTIONS = []
U = "strncpy.0:33,memcmp.0:12,memcpy.0:70,spec_name32_copied.0:33,spec_name32_parsed.0:32,spec_magic_is.0:12,ins_equal.0:33,ins_equal.1:5,name_repr.0:33"


def _g(name, entry, enforce=None, replace=(), **kw):
    kw.setdefault("unwind", 34)
    return Group(name, SRC, entry, enforce=enforce, replace=replace, **kw)


def leaf_groups():
    gs = []
    for f in ["toUint16LE", "toUint16BE", "toSint16BE", "fromUint16LE", "fromUint16BE", "fromSint16BE"]:
        gs.append(_g("leaf_" + f, "h_" + f, enforce=f, required=[r"postcondition"]))
    gs.append(_g("codec_inverse", "h_codec_inverse", required=[r"LEMMA"], funcs=["toUint16LE", "toUint16BE", "toSint16BE",
                                                                                  "fromUint16LE", "fromUint16BE", "fromSint16BE"]))
    return gs


def ins_groups():
    PW = ["WOPN_parseInstrument", "WOPN_writeInstrument"]
    return [
        _g("ins_parse_contract", "h_parseInstrument", enforce="WOPN_parseInstrument", required=[r"postcondition", r"assigns"]),
        _g("ins_write_contract", "h_writeInstrument", enforce="WOPN_writeInstrument", required=[r"postcondition", r"assigns"]),
        _g("ins_roundtrip_lemma", "h_ins_roundtrip", replace=PW, required=[r"ROUNDTRIP-V2", r"ROUNDTRIP-V1"], funcs=PW,
           note="lemma over the two contracts only (both calls replaced by their contracts)"),
        _g("ins_load_save_load_lemma", "h_ins_load_save_load", replace=PW, required=[r"LOADSAVELOAD"], funcs=PW),
    ]


def opni_groups():
    PW = ["WOPN_parseInstrument", "WOPN_writeInstrument"]
    return [
        _g("opni_calc_size", "h_CalculateInstFileSize", enforce="WOPN_CalculateInstFileSize", required=[r"postcondition"]),
        _g("opni_save_contract", "h_SaveInstToMem", enforce="WOPN_SaveInstToMem", replace=["WOPN_writeInstrument"],
           required=[r"postcondition", r"assigns"], mem_gb=20, timeout=1200),
        _g("opni_save_degenerate", "h_SaveInst_degenerate", required=[r"DEGENERATE"], funcs=["WOPN_SaveInstToMem"], unwind=80),
        _g("opni_load_contract", "h_LoadInstFromMem", enforce="WOPN_LoadInstFromMem", replace=["WOPN_parseInstrument"],
           required=[r"postcondition", r"assigns"]),
        _g("opni_roundtrip_lemma", "h_opni_roundtrip", replace=PW + ["WOPN_CalculateInstFileSize"], required=[r"OPNI save into", r"OPNI operator"],
           funcs=["WOPN_SaveInstToMem", "WOPN_LoadInstFromMem"],
           note="file code inlined, record codec and size calculator replaced by their contracts"),
        _g("opni_load_save_load_lemma", "h_opni_load_save_load", replace=PW + ["WOPN_CalculateInstFileSize"], required=[r"LSL identity"],
           funcs=["WOPN_SaveInstToMem", "WOPN_LoadInstFromMem"]),
    ]


SEG = "harness/wopn_seg_h.c"
SEG_CHECKS = ["--bounds-check", "--pointer-check", "--div-by-zero-check", "--signed-overflow-check", "--undefined-shift-check", "--no-malloc-may-fail"]
SEG_NOTE = "loop-head cut point segment of the real function text (VERIF_LOOP/VERIF_ENTRY markers); pointer-arithmetic range check off because the current bank/record is a one-element window (base = window - j)"
LOAD_LOOPS = {1: "names outer", 2: "names inner", 3: "instruments outer", 4: "instruments bank", 5: "instruments record"}


def bank_groups():
    U2 = "strncpy.0:33,memcmp.0:80,memcpy.0:40,spec_magic_is.0:12,spec_name32_copied.0:33,WOPN_parseInstrument.0:5,WOPN_writeInstrument.0:5"
    gs = [
    ] + [
        _g("bank_calc_size_contract_v%d" % v, "h_CalcBankSize", enforce="WOPN_CalculateBankFileSize", required=[r"postcondition"], defines=["CALC_V=%d" % v]) for v in (0, 1, 2)
    ] + [
        _g("ins_parse_frame_contract", "h_parseInstrument", enforce="WOPN_parseInstrument/contract_parse_frame", required=[r"assigns"]),
        _g("ins_write_frame_contract", "h_writeInstrument", enforce="WOPN_writeInstrument/contract_write_frame", required=[r"assigns"]),
    ]
    gs.append(Group("bank_load_seg_entry", SEG, "h_seg_load", replace=["WOPN_Init", "WOPN_Free"], defines=["SEG_START=0"], unwind=80,
                    checks=SEG_CHECKS, object_bits=9, required=[r"SEG-LOAD"], funcs=["WOPN_LoadBankFromMem"], timeout=600,
                    note="entry -> first loop head or error return, every byte string; WOPN_Init by its contract. " + SEG_NOTE))
    gs.append(Group("bank_save_seg_entry", SEG, "h_seg_save", defines=["SEG_START=10"], unwind=80, checks=SEG_CHECKS, object_bits=9,
                    required=[r"SEG-SAVE"], funcs=["WOPN_SaveBankToMem"], timeout=600, note="entry -> first loop head or error return. " + SEG_NOTE))
    for loop, what in LOAD_LOOPS.items():
        for slot in (0, 1):
            gs.append(Group("bank_load_seg_%d_slot%d" % (loop, slot), SEG, "h_seg_load",
                            replace=["WOPN_Free"],
                            defines=["SEG_START=%d" % loop, "SEG_I=%d" % slot], unwind=80, checks=SEG_CHECKS, object_bits=9, required=[r"SEG"], bounded=("bank index < 64 in this data-moving segment (domain of the property)" if loop in (2, 5) else None),
                            funcs=["WOPN_LoadBankFromMem"], timeout=600, note="from the head of the %s loop (slot %d) to the next cut point or return. %s" % (what, slot, SEG_NOTE)))
            gs.append(Group("bank_save_seg_%d_slot%d" % (loop, slot), SEG, "h_seg_save",
                            replace=[],
                            defines=["SEG_START=%d" % (10 + loop), "SEG_I=%d" % slot], unwind=80, checks=SEG_CHECKS, object_bits=9, required=[r"SEG"], bounded=("bank index < 64 in this data-moving segment (domain of the property)" if loop in (2, 5) else None),
                            funcs=["WOPN_SaveBankToMem"], timeout=600, note="from the head of the %s loop (slot %d) to the next cut point or return. %s" % (what, slot, SEG_NOTE)))
    # pure arithmetic lemma instances: (from, to) pairs of the loop-head transition system; 6 = success return, 7 = short return
    PAIRS = {1: [2, 1, 3], 2: [2, 1, 3, 7], 3: [4, 3, 6, 7], 4: [5], 5: [5, 4, 3, 6]}
    for frm, tos in PAIRS.items():
        for to in tos:
            for v in (1, 2):
                if v == 1 and frm in (1, 2):
                    continue   # the bank-name loops exist for version >= 2 only
                gs.append(Group("bank_layout_lemma_%d_to_%d_v%d" % (frm, to, v), SEG, "h_lemma",
                                defines=["LEMMA_FROM=%d" % frm, "LEMMA_TO=%d" % to, "LEMMA_V=%d" % v], checks=SEG_CHECKS, object_bits=9,
                                required=[r"LEMMA"], timeout=900,
                                note="pure arithmetic, all integers: Inv(from) && transition ==> Inv(to); return cases: consumed == layout size / block < layout size"))
    return gs


def groups(tier):
    return leaf_groups() + ins_groups() + opni_groups() + bank_groups()
