"""C06 - A new note never displaces a sounding note while a chip channel is idle (Route B)."""
from vlib.pipeline import Group
from vlib import extract_play

LEVEL = "proof"
MANIFEST = dict(
    category="proof",
    text="Three contracts on real text extracted on every run. (1) OPNMIDIplay::calculateChipChannelGoodness: the score of a chip channel falls into strictly ordered classes - no user: >= -105535; a single released-but-pedal-held user: -598302..-199640; any user whose key is still down: <= -3398920; never below -13000000 (so the int32 truncation in the caller is exact). (2) The selection loop of realTime_NoteOn (statement range, loop contract with a ghost witness channel, unbounded in the number of chip channels): the chosen channel is an argmax, hence while some channel has no user the note goes to a channel without users, and a channel holding a single pedal-held note is taken before any channel whose key is still down; the primary channel of the same note is never reused. (3) prepareChipChannelForNewNote on a channel without users returns at its first statement (nothing is displaced).",
    design_ref="DESIGN.md A.1 / C06",
    level_note="Size bound: the user list of the scored channel has the canonical shape with 0..3 users (CBMC cannot handle symbolic list shapes); scores use the property's own age bound (notes <= 10 minutes old, countdowns within the 16-bit millisecond range) - without it the claim is false (observation O-06 of the design: after ~13 min a pedal-held channel outranks an idle one). The selection loop uses the goodness contract re-indexed by a per-channel class (ghost array). 'Every previously sounding note keeps its chip channel' is covered only through (3); the rest of realTime_NoteOn after the selection (find_or_create_user, noteUpdate) is not under contract.",
    technique="CBMC code contracts (DFCC) with a loop contract on mechanically extracted C++ member functions and statement ranges")
TRUSTED = ["extraction rules of vlib/cxx2c.py incl. R7 (intrusive list iteration -> cell pointer walk)", "harness/env_play.h", "Phys_eq (transcription of the two one-line operator== of the original)",
           "stub with body: MIDIchannel::find_activenote"]
ASSUMPTIONS = ["user lists in canonical shape with at most 3 users (size bound)", "key-on/key-off countdowns within the 16-bit millisecond range, notes at most 10 minutes old (the property's own bound)"]
F = "src/opnmidi_midiplay.cpp"
GOOD = dict(file=F, name="OPNMIDIplay::calculateChipChannelGoodness", cls="OPNMIDIplay", must=["R10", "R3", "R4", "R2"], scopes=["LocationData"],
            post=[(r"chan\.users\.empty\(\)", "(chan.users.size_ == 0) /* pl_list::empty() */"),
                  (r"\(chan\.recent_ins == ins\)", "Phys_eq(&chan.recent_ins, &ins)"), (r"jd\.ins == ins", "Phys_eq(&jd.ins, &ins)"),
                  (r"for\(const_users_iterator j = chan\.users\.begin\(\); !j\.is_end\(\); \+\+j\)",
                   "for(const pl_cell_LocationData *j = chan.users.first_; !(j->next == NULL); j = j->next)   /* R7: begin() = first_, is_end() = (next == NULL), ++ = next */"),
                  (r"notes_iterator\s+k = \(g_play\.m_midiChannels\[jd\.loc\.MidCh\]\)\.find_activenote\(jd\.loc\.note\);",
                   "pl_cell_NoteInfo *k = MIDIchannel_find_activenote(&g_play.m_midiChannels[jd.loc.MidCh], jd.loc.note);   /* R7 */"),
                  (r"!k\.is_end\(\)", "(k != NULL) /* R7 */")])


SELECT = dict(file=F, name="OPNMIDIplay::realTime_NoteOn", cls="OPNMIDIplay", rename="realTime_NoteOn_select", must=["R12", "R2"],
              cut_from=r"\n[ \t]*int32_t c = -1;\n", cut_at=r"\n[ \t]*if\(c < 0\)\n[ \t]*\{", epilogue="    g_sel.c = c; g_sel.bs = bs;\n    return;",
              params_override="Synth *synth__p, uint32_t ccount, int32_t *adlchannel, Phys *voices", ref_params=["synth"],
              post=[(r"calculateChipChannelGoodness\(a, voices\[ccount\]\)", "calculateChipChannelGoodness(a, &voices[ccount])   /* R4: by-reference argument */")],
              sig_post=[(r"^bool$", "void")])
PREP = dict(file=F, name="OPNMIDIplay::prepareChipChannelForNewNote", cls="OPNMIDIplay", rename="prepareChipChannelForNewNote_first", must=["R10", "R12", "R4"],
            cut_at=r"\n[ \t]*Synth &synth = \*m_synth;", epilogue="    g_prep_continued = true;",
            post=[(r"g_play\.m_chipChannels\[c\]\.users\.empty\(\)", "(g_play.m_chipChannels[c].users.size_ == 0) /* pl_list::empty() */")])


def _extract(wd):
    return extract_play.emit(wd, [GOOD, SELECT, PREP])


def groups(tier):
    CK = ["--bounds-check", "--pointer-check", "--div-by-zero-check", "--signed-overflow-check", "--undefined-shift-check", "--no-malloc-may-fail"]
    return [Group("goodness_contract", "harness/alloc_h.c", "h_goodness", enforce="calculateChipChannelGoodness", extract=_extract, object_bits=9, checks=CK,
                  unwindset="spec_users_shape.0:4,spec_users_bounds.0:4,calculateChipChannelGoodness_wrapped_for_contract_checking.0:5,memcmp.0:40,h_goodness.0:4",
                  required=[r"postcondition", r"assigns"], timeout=900, funcs=["OPNMIDIplay::calculateChipChannelGoodness"],
                  bounded="user list of the channel: canonical shape, 0..3 users"),
            Group("select_contract", "harness/alloc_h.c", "h_select", replace=["calculateChipChannelGoodness/contract_goodness_by_class"], loops=True, extract=_extract, object_bits=9,
                  checks=CK + ["--conversion-check"], required=[r"SELECT", r"loop_invariant_step"], timeout=900,
                  funcs=["OPNMIDIplay::realTime_NoteOn (range: chip-channel selection loop)"],
                  note="loop contract (argmax with a ghost witness channel): unbounded in the number of chip channels; goodness replaced by its contract re-indexed by channel class"),
            Group("prepare_idle_contract", "harness/alloc_h.c", "h_prepare_first", enforce="prepareChipChannelForNewNote_first", extract=_extract, object_bits=9, checks=CK,
                  required=[r"postcondition", r"assigns"], funcs=["OPNMIDIplay::prepareChipChannelForNewNote (range: first statement)"])]
