"""C13 - Audio calls fill exactly what they report, in the requested sample format (Route B: conversions, SendStereoAudio)."""
import re
from vlib.pipeline import Group
from vlib import extract_play

LEVEL = "proof"
MANIFEST = dict(
    category="proof",
    text="Contracts on the real sample conversion helpers opn2_cvtS16/U16/S8/U8/S24/U24/S32/U32/Real<float|double> (extracted from opnmidi_private.hpp): each equals the documented formula for all 2^32 inputs, no signed overflow. Contract on the real SendStereoAudio (extracted): refuses exactly the undocumented type/container pairs, otherwise performs exactly one copy of min(requested - position, 2*available)/2 frames starting at frame position/2 with the requested stride into containers of the requested size; the six CopySamples instantiations are replaced by contracts that check those arguments.",
    design_ref="DESIGN.md C13",
    level_note="Not covered: the per-byte frame of CopySamplesRaw/Transformed themselves (template loops; not built), the request accounting of opn2_generateFormat/opn2_playFormat's period loop (floating point), end-of-song behaviour. Trusted: extraction rules incl. template monomorphisation (R6), CBMC float semantics for the two Real conversions.",
    technique="CBMC code contracts (DFCC) on mechanically extracted inline functions")
TRUSTED = ["extraction rules of vlib/cxx2c.py (R1, R2, R6 template monomorphisation)", "assumed contracts at the call sites of the CopySamples instantiations (argument check + ghost record); their bodies are not under proof"]
ASSUMPTIONS = ["SendStereoAudio is called as opn2_generateFormat/opn2_playFormat call it: even non-negative request, even position inside it, at most 512 generated frames"]
P = "src/opnmidi_private.hpp"
CVT = ["opn2_cvtS16", "opn2_cvtS8", "opn2_cvtS24", "opn2_cvtS32", "opn2_cvtU16", "opn2_cvtU8", "opn2_cvtU24", "opn2_cvtU32"]
INST = [("CopySamplesTransformed", "int8_t"), ("CopySamplesTransformed", "int16_t"), ("CopySamplesTransformed", "int32_t"),
        ("CopySamplesTransformed", "float"), ("CopySamplesTransformed", "double"), ("CopySamplesRaw", "int32_t")]


def _specs(send):
    sp = [dict(file=P, name=n, cls=None, post=[(r"\binline\b", "")] if False else ()) for n in CVT]
    for real in ("float", "double"):
        sp.append(dict(file=P, name="opn2_cvtReal", cls=None, rename="opn2_cvtReal_" + real,
                       post=[(r"\bReal\b", real)], sig_post=[(r"\bReal\b", real)], must=["R2"]))
    if send:
        sp.append(dict(file="src/opnmidi.cpp", name="SendStereoAudio", cls=None, must=["R2"],
                       post=[(r"(CopySamples\w+)<(\w+)>\(", r"\1_\2("), (r"opn2_cvtReal<(\w+)>", r"opn2_cvtReal_\1"),
                             (r"typedef int32_t\(&pfnConvert\)\(int32_t\);", "typedef int32_t (*pfnConvert)(int32_t);   /* R4: reference to function */")]))
    return sp


def _extract(send):
    def f(wd):
        info = extract_play.emit(wd, _specs(send))
        if send:
            # contracts of the six template instantiations (declarations only: their bodies are not in this TU)
            import os
            decl = []
            for fn, t in INST:
                if fn == "CopySamplesRaw":
                    decl.append("void %s_%s(OPN2_UInt8 *dstLeft, OPN2_UInt8 *dstRight, const int32_t *src, size_t frameCount, unsigned sampleOffset)\nCOPY_CONTRACT(%s_%s, sizeof(%s), 1);" % (fn, t, fn, t, t))
                else:
                    rt = t if t in ("float", "double") else "int32_t"
                    decl.append("void %s_%s(OPN2_UInt8 *dstLeft, OPN2_UInt8 *dstRight, const int32_t *src, size_t frameCount, unsigned sampleOffset, %s (*transform)(int32_t))\nCOPY_CONTRACT(%s_%s, sizeof(%s), 0);" % (fn, t, rt, fn, t, t))
            p = os.path.join(wd, "extracted.c")
            txt = open(p).read()
            i = txt.index("/* ---- SendStereoAudio")
            open(p, "w").write(txt[:i] + "/* template instantiations used by SendStereoAudio: contracts only (R6) */\n" + "\n".join(decl) + "\n" + txt[i:])
        return info
    return f


def groups(tier):
    gs = []
    for n in CVT + ["opn2_cvtReal_float", "opn2_cvtReal_double"]:
        gs.append(Group("cvt_" + n, "harness/audio_h.c", "h_" + n, enforce=n, extract=_extract(False), required=[r"postcondition"],
                        funcs=[n], flags=["--float-overflow-check", "--nan-check"] if "Real" in n else [],
                        note="all 2^32 inputs"))
    gs.append(Group("send_stereo_audio_contract", "harness/audio_h.c", "h_SendStereoAudio", defines=["WITH_SEND"], extract=_extract(True),
                    replace=["%s_%s" % i for i in INST], required=[r"SEND"], funcs=["SendStereoAudio"], object_bits=9,
                    checks=["--bounds-check", "--pointer-check", "--div-by-zero-check", "--signed-overflow-check", "--undefined-shift-check", "--no-malloc-may-fail", "--conversion-check"],
                    note="lemma harness over the real body with the CopySamples instantiations replaced by argument-checking contracts"))
    return gs
