"""C13 - Audio calls fill exactly what they report, in the requested sample format (Route B: conversions, SendStereoAudio)."""
import re
from vlib.pipeline import Group
from vlib import extract_play

LEVEL = "proof"
MANIFEST = dict(
    category="proof",
    text="Contracts on the real sample conversion helpers opn2_cvtS16/U16/S8/U8/S24/U24/S32/U32/Real<float|double> (extracted from opnmidi_private.hpp): each equals the documented formula for all 2^32 inputs, no signed overflow. Contract on the real SendStereoAudio (extracted): refuses exactly the undocumented type/container pairs, otherwise performs exactly one copy of min(requested - position, 2*available)/2 frames starting at frame position/2 with the requested stride into containers of the requested size; the six CopySamples instantiations are replaced by contracts that check those arguments.",
    design_ref="DESIGN.md C13",
    level_note="opn2_generateFormat and opn2_playFormat (extracted, loop contract on the period loop, 1..4 chips): if the call returns, generateFormat reports the request rounded down to even (0 for negative counts, NULL device or a refused format) and playFormat an even count not above that, short only when the sequencer reported the end of the song (ghost) or the format was refused; the reported count is exactly twice the frames handed to SendStereoAudio, each period is stored directly behind the previous one, every SendStereoAudio call satisfies the precondition the SendStereoAudio group assumes, at most 512 frames go through the 1024-element mix buffer, the timing state (carry, delay, skip count) keeps its invariant - PARTIAL correctness, termination not proved. CopySamplesRaw<int32_t> and CopySamplesTransformed<int8_t|int16_t|int32_t|float|double> (extracted, R6; loop contracts; planar and interleaved layouts): for every frame count up to 512, every 32-bit stride and offset, a ghost frame holds (Dst)transform(src[2g]) / (Dst)transform(src[2g+1]) at left/right + g*sampleOffset and a ghost guard byte in front of, between or behind the containers keeps its value; the loop terminates. The address product i*sampleOffset is outlined (R14) and used through a contract that a separate lemma group discharges with cvc5 (bit-vectors as integers). Caller buffers up to 64 KiB in the quick tier, 16 MiB in the thorough tier (4 TiB measured once for all but one group). Not covered: opn2_generate/opn2_play wrappers (one call each), the chips' output values. Trusted: extraction rules incl. template monomorphisation (R6), CBMC float semantics for the two Real conversions and the period arithmetic, memset model.",
    technique="CBMC code contracts (DFCC) with loop contracts on mechanically extracted functions")
TRUSTED = ["extraction rules of vlib/cxx2c.py (R1, R2, R6 template monomorphisation, R13 loop-marker relocation, R14 multiplication outlining)", "SendStereoAudio group: contracts at the call sites of the CopySamples instantiations (argument check + ghost record); the bodies are proved in the copy_* groups", "cvc5 1.0.3 --solve-bv-as-int=sum for the address-product lemma"]
ASSUMPTIONS = ["SendStereoAudio group: called with an even non-negative request, an even position inside it and at most 512 generated frames - no longer assumed: it is the REQUIRES of the SendStereoAudio stub that both callers (generate_format_contract, play_format_contract) are checked against at the call site",
               "opn2_generateFormat / opn2_playFormat: PARTIAL correctness (termination of the period loop is not proved: progress depends on floating-point accumulation and on the sequencer)",
               "generate/play groups: 1..4 chips (the property's quantifier); the chip loop is unwound with unwinding assertions for that bound",
               "generate/play groups: setup invariant assumed at entry (1 <= PCM_RATE <= 1e6, 0 < maxdelay <= 1000 s, carry in [0,1), 0 <= delay <= 1e9 s, |tick_skip_samples_delay| <= 2^32) and re-established at exit",
               "play group: ASSUMED contracts of the sequencer - positionAtEnd() returns any answer, OPNMIDIplay::Tick() returns a finite delay in [0, 1e9] s",
               "copy groups: the transform is an arbitrary deterministic integer-valued function (uninterpreted function); hypothesis token g_products_ok (the ghost products are the products) is the precondition of the outlined multiplication and is given its definition only in copy_address_product_lemma",
               "generate/play groups: TRUSTED memset model (checks the cleared range is inside m_outBuf, then forgets the buffer contents); chip emulators by contract (write at most 512 frames into m_outBuf)"]
P = "src/opnmidi_private.hpp"
CVT = ["opn2_cvtS16", "opn2_cvtS8", "opn2_cvtS24", "opn2_cvtS32", "opn2_cvtU16", "opn2_cvtU8", "opn2_cvtU24", "opn2_cvtU32"]
INST = [("CopySamplesTransformed", "int8_t"), ("CopySamplesTransformed", "int16_t"), ("CopySamplesTransformed", "int32_t"),
        ("CopySamplesTransformed", "float"), ("CopySamplesTransformed", "double"), ("CopySamplesRaw", "int32_t")]


def _specs(send):
    sp = [dict(file=P, name=n, cls=None, post=[(r"\binline\b", "")] if False else ()) for n in CVT]
    for real in ("float", "double"):
        sp.append(dict(file=P, name="opn2_cvtReal", cls=None, rename="opn2_cvtReal_" + real,
                       post=[(r"\bReal\b", real)], sig_post=[(r"\bReal\b", real)], must=["R2"]))
    if send:
        sp.append(dict(file="src/opnmidi.cpp", name="SendStereoAudio", cls=None, must=["R2"],
                       post=[(r"(CopySamples\w+)<(\w+)>\(", r"\1_\2("), (r"opn2_cvtReal<(\w+)>", r"opn2_cvtReal_\1"),
                             (r"typedef int32_t\(&pfnConvert\)\(int32_t\);", "typedef int32_t (*pfnConvert)(int32_t);   /* R4: reference to function */")]))
    return sp


def _extract(send):
    def f(wd):
        info = extract_play.emit(wd, _specs(send))
        if send:
            # contracts of the six template instantiations (declarations only: their bodies are not in this TU)
            import os
            decl = []
            for fn, t in INST:
                if fn == "CopySamplesRaw":
                    decl.append("void %s_%s(OPN2_UInt8 *dstLeft, OPN2_UInt8 *dstRight, const int32_t *src, size_t frameCount, unsigned sampleOffset)\nCOPY_CONTRACT(%s_%s, sizeof(%s), 1);" % (fn, t, fn, t, t))
                else:
                    rt = t if t in ("float", "double") else "int32_t"
                    decl.append("void %s_%s(OPN2_UInt8 *dstLeft, OPN2_UInt8 *dstRight, const int32_t *src, size_t frameCount, unsigned sampleOffset, %s (*transform)(int32_t))\nCOPY_CONTRACT(%s_%s, sizeof(%s), 0);" % (fn, t, rt, fn, t, t))
            p = os.path.join(wd, "extracted.c")
            txt = open(p).read()
            i = txt.index("/* ---- SendStereoAudio")
            open(p, "w").write(txt[:i] + "/* template instantiations used by SendStereoAudio: contracts only (R6) */\n" + "\n".join(decl) + "\n" + txt[i:])
        return info
    return f


GEN = dict(file="src/opnmidi.cpp", name="opn2_generateFormat", cls=None, must=["R2", "R3"], scopes=["MidiPlayer"],
           post=[(r"synth\.m_chips\[0\]->generate32\(", "chip_generate32(0, "), (r"synth\.m_chips\[card\]->generateAndMix32\(", "chip_generateAndMix32(card, "),
                 (r"SendStereoAudio\(", "SendStereoAudio_c("), (r"player->TickIterators\(", "TickIterators(")])


PLAY = dict(file="src/opnmidi.cpp", name="opn2_playFormat", cls=None, must=["R2", "R3"], scopes=["MidiPlayer"],
            post=GEN["post"][:3], post_opt=[(r"player->m_sequencer->positionAtEnd\(\)", "seq_positionAtEnd()"), (r"player->Tick\(", "player_Tick(")])


def _extract_gen(wd):
    return extract_play.emit(wd, [GEN])


def _extract_play(wd):
    return extract_play.emit(wd, [PLAY])


INT_CVT = "(nondet_unsigned() %% 8 == 0 ? opn2_cvtS8 : nondet_unsigned() %% 8 == 1 ? opn2_cvtU8 : nondet_unsigned() %% 8 == 2 ? opn2_cvtS16 : nondet_unsigned() %% 8 == 3 ? opn2_cvtU16 : nondet_unsigned() %% 8 == 4 ? opn2_cvtS24 : nondet_unsigned() %% 8 == 5 ? opn2_cvtU24 : nondet_unsigned() %% 8 == 6 ? opn2_cvtS32 : opn2_cvtU32)".replace("%%", "%")
RELOCATE = (r"\)\s*\{\s*\n\s*VERIF_LOOP\((\w+)\)", r")\n    VERIF_LOOP(\1)\n    {")   # R13: a marker that is the first line of a loop body goes in front of the body


def _extract_copy(fn, t):
    def f(wd):
        sp = _specs(False)
        ret = t if t in ("float", "double") else "int32_t"
        sp.append(dict(file="src/opnmidi.cpp", name=fn, cls=None, rename="%s_%s" % (fn, t), must=["R2"] if fn != "CopySamplesRaw" else [], static=False,
                       post=[(r"\bDst\b", t), RELOCATE, (r"\(i \* sampleOffset\)", "verif_mul(i, sampleOffset)")], sig_post=[(r"\bRet\b", ret), (r"\(\s*&\s*transform\s*\)", "(*transform)")] if fn != "CopySamplesRaw" else []))
        return extract_play.emit(wd, sp)
    return f


def groups(tier):
    gs = []
    for n in CVT + ["opn2_cvtReal_float", "opn2_cvtReal_double"]:
        gs.append(Group("cvt_" + n, "harness/audio_h.c", "h_" + n, enforce=n, extract=_extract(False), required=[r"postcondition"],
                        funcs=[n], flags=["--float-overflow-check", "--nan-check"] if "Real" in n else [],
                        note="all 2^32 inputs"))
    gs.append(Group("send_stereo_audio_contract", "harness/audio_h.c", "h_SendStereoAudio", defines=["WITH_SEND"], extract=_extract(True),
                    replace=["%s_%s" % i for i in INST], required=[r"SEND"], funcs=["SendStereoAudio"], object_bits=9,
                    checks=["--bounds-check", "--pointer-check", "--div-by-zero-check", "--signed-overflow-check", "--undefined-shift-check", "--no-malloc-may-fail", "--conversion-check"],
                    note="lemma harness over the real body with the CopySamples instantiations replaced by argument-checking contracts"))
    gs.append(Group("copy_address_product_lemma", "harness/copy_h.c", "h_mul", enforce="verif_mul", backend="cvc5-bvint", extract=_extract(False),
                    defines=["COPY_MUL_LEMMA", "COPY_FN=unused_fn", "COPY_DST=int32_t", "COPY_RET=int32_t", "COPY_RAW=1", "COPY_INTERLEAVED=0"], required=[r"postcondition"],
                    funcs=["verif_mul (outlined address product i * sampleOffset of the CopySamples loops, rule R14)"], timeout=300,
                    note="pure arithmetic: the product and its order relative to the ghost products, for every index < 512 and every 32-bit stride; SMT back end cvc5 with bit-vectors translated to integers"))
    for fn, t in INST:
        for lay, chk, tag in ((0, 7, "planar"), (1, 1, "interleaved_left_value"), (1, 2, "interleaved_right_value"), (1, 4, "interleaved_guard_bytes")):
            raw = fn == "CopySamplesRaw"; ret = t if t in ("float", "double") else "int32_t"
            gs.append(Group("copy_%s_%s_%s" % (fn, t, tag), "harness/copy_h.c", "h_copy", enforce="%s_%s" % (fn, t), loops=True, replace=["verif_mul"],
                            defines=["COPY_FN=%s_%s" % (fn, t), "COPY_DST=" + t, "COPY_RET=" + ret, "COPY_RAW=%d" % raw, "COPY_INTERLEAVED=%d" % lay, "COPY_CHECK=%d" % chk,
                                     "COPY_SIZE_BITS=%d" % ((16 if (t == "double" and lay) else 24) if tier == "thorough" else 16)], backend="cadical",
                            extract=_extract_copy(fn, t), required=[r"postcondition", r"loop_invariant_step", r"decreases|variant"], funcs=["%s<%s>" % (fn, t)],
                            object_bits=8, timeout=1800 if tier == "thorough" else 900,
                            assumptions=["caller buffers of at most %s (quick tier: 64 KiB; thorough tier: 16 MiB, except the interleaved double groups; measured once: every planar group and the int/float interleaved groups also pass with 4 TiB in 5-25 min each, the interleaved double right-value group did not finish in 30 min); at most 512 frames per call (established by both callers, see the generate/play groups)" % ("16 MiB" if tier == "thorough" and not (t == "double" and lay) else "64 KiB"),
                                         "the transform argument is an arbitrary deterministic integer-valued function (uninterpreted)"],
                            note="loop contract (every frame count up to the period size 512, every 32-bit stride, every offset): value of a ghost frame, ghost guard byte in front of / between / behind the containers unchanged, termination; address product by contract (R14)"))
    gs.append(Group("generate_format_contract", "harness/audio_h.c", "h_opn2_generateFormat", defines=["WITH_GENERATE"], extract=_extract_gen, enforce="opn2_generateFormat",
                    replace=["chip_generate32", "chip_generateAndMix32", "SendStereoAudio_c", "TickIterators"], loops=True, object_bits=9,
                    pre_unwindset="opn2_generateFormat.0:6", flags=["--conversion-check", "--float-overflow-check", "--nan-check"],
                    required=[r"postcondition", r"loop_invariant_step", r"precondition"], timeout=900, funcs=["opn2_generateFormat"],
                    note="loop contract on the period loop: PARTIAL correctness (no variant: progress depends on floating-point accumulation); chips, SendStereoAudio and TickIterators by contract"))
    gs.append(Group("play_format_contract", "harness/audio_h.c", "h_opn2_playFormat", defines=["WITH_PLAY"], extract=_extract_play, enforce="opn2_playFormat",
                    replace=["chip_generate32", "chip_generateAndMix32", "SendStereoAudio_c", "seq_positionAtEnd", "player_Tick"], loops=True, object_bits=9,
                    pre_unwindset="opn2_playFormat.0:6", flags=["--conversion-check", "--float-overflow-check", "--nan-check"],
                    required=[r"postcondition", r"loop_invariant_step", r"precondition"], timeout=900, funcs=["opn2_playFormat"],
                    note="loop contract on the period loop: PARTIAL correctness; chips, SendStereoAudio, the sequencer's positionAtEnd and Tick by contract"))
    return gs
