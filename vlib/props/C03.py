"""C03 - Any sequence of API calls is memory-safe: the argument-facing layer (Route B: realTime_* functions)."""
from vlib.pipeline import Group
from vlib import extract_play

LEVEL = "proof"
MANIFEST = dict(
    category="proof",
    text="Contracts on the real OPNMIDIplay::realTime_Controller, PatchChange, PitchBend (both), BankChangeLSB/MSB/BankChange, ChannelAfterTouch, NoteOff, NoteAfterTouch and the argument-handling range of realTime_NoteOn (extracted on every run), with NO precondition on the uint8/uint16 arguments: every index into the channel table is inside the table, callees receive a valid channel index, and the table invariant (volume, expression, brightness, program of every channel <= 127 - what touchNote and the instrument lookup require) is preserved; by induction over call histories. OPN2::noteOn/touchNote safety: C02/C11; SysEx: C19.",
    design_ref="DESIGN.md C03",
    level_note="Scope: argument validation and table indexing only. realTime_NoteAfterTouch is covered with the list lookup as an assumed contract. realTime_NoteOn: its argument-handling range (channel fold, key clamp, note-off first; shared with C12) is covered, its allocation part is not, the C API wrappers, containers, emulator cores, the sequencer, audio generation. updatePortamento, setRPN, MIDIchannel::resetAllControllers121/updateBendSensitivity are real extracted bodies proved against the contracts used at their call sites. Remaining callees (noteUpdateAll, noteOff, killSustainingNotes, markSostenutoNotes, find_activenote) are assumed contracts that require a valid channel index and are assumed not to modify the four range-constrained fields. Table size fixed to 16 channels.",
    technique="CBMC code contracts (DFCC) on mechanically extracted C++ member functions; inductive table invariant")
TRUSTED = ["extraction rules of vlib/cxx2c.py", "harness/env_play.h", "assumed callee contracts listed in contracts/rt_contracts.h"]
ASSUMPTIONS = ["channel table has 16 entries (one MIDI port)"]
F = "src/opnmidi_midiplay.cpp"
RESET121 = (r"g_play\.m_midiChannels\[channel\]\.resetAllControllers121\(\)", "MIDIchannel_resetAllControllers121(&g_play.m_midiChannels[channel])")
FUNCS = [
    ("realTime_Controller", dict(must=["R10", "R5"], post=[RESET121], scopes=["LocationData"])),
    ("realTime_PatchChange", dict(must=["R10"])),
    ("realTime_PitchBend", dict(must=["R10"], params_re=r"uint16_t pitch")),
    ("realTime_PitchBend", dict(must=["R10"], params_re=r"uint8_t msb", rename="realTime_PitchBend2")),
    ("realTime_BankChangeLSB", dict(must=["R10"])), ("realTime_BankChangeMSB", dict(must=["R10"])), ("realTime_BankChange", dict(must=["R10"])),
    ("realTime_ChannelAfterTouch", dict(must=["R10"])),
    ("realTime_NoteAfterTouch", dict(must=["R10", "R3"], post=[
        (r"notes_iterator i = g_play\.m_midiChannels\[channel\]\.find_activenote\(note\);", "pl_cell_NoteInfo *i = MIDIchannel_find_activenote(&g_play.m_midiChannels[channel], note);   /* R7: iterator -> cell pointer */"),
        (r"!i\.is_end\(\)", "(i != NULL) /* R7: is_end() */")])),
    ("realTime_NoteOff", dict(must=["R10"], post=[(r"noteOff\(channel, note\)", "noteOff(channel, note, false /* default argument of the declaration */)")])),
]


def _extract(wd):
    H = "src/opnmidi_midiplay.hpp"
    specs = [dict(file=F, name="isXgPercChannel", cls=None, static=True),
             dict(file=H, kind="inline_method", **{"class": "MIDIchannel"}, name="updateBendSensitivity"),
             dict(file=H, kind="inline_method", **{"class": "MIDIchannel"}, name="resetAllControllers121", static=False, siblings=["updateBendSensitivity"]),
             dict(file=F, name="OPNMIDIplay::updatePortamento", cls="OPNMIDIplay", must=["R10"]),
             dict(file=F, name="OPNMIDIplay::setRPN", cls="OPNMIDIplay", must=["R10", "R2"],
                  post=[(r"g_play\.m_midiChannels\[midCh\]\.updateBendSensitivity\(\)", "MIDIchannel_updateBendSensitivity(&g_play.m_midiChannels[midCh])")])]
    for n, kw in FUNCS:
        d = dict(file=F, name="OPNMIDIplay::" + n, cls="OPNMIDIplay"); d.update(kw); specs.append(d)
    return extract_play.emit(wd, specs)


def replay(g, obligation, wit, workroot):
    """Library replay: the call is made with the counterexample's argument bytes on a real instance (ASan/UBSan build)."""
    from vlib import libreplay
    def num(k):
        v = wit.get(k)
        return int(str(v).rstrip("ul")) if v is not None else 0
    fn = g.name.replace("rt_", "").replace("noteon_args_contract", "realTime_NoteOn")
    args = [fn, num("in_channel"), num("in_a") if fn != "realTime_NoteOn" else num("in_note"), num("in_b") if fn != "realTime_NoteOn" else num("in_velocity"), num("in_w")]
    r = libreplay.run_driver(workroot, "replay/rt_driver.cpp", args)
    rep = (r["rc"] not in (0, 2, None)) and ("AddressSanitizer" in r["stderr"] or "runtime error" in r["stderr"] or "REPLAY-VIOLATION" in r["stdout"])
    return dict(reproduced=bool(rep), driver="replay/rt_driver.cpp", args=args, output=r["stdout"][-400:], stderr=r["stderr"][-1200:])


def groups(tier):
    gs = []
    REPL = ["noteUpdateAll", "updatePortamento", "setRPN", "noteOff", "killSustainingNotes", "markSostenutoNotes", "MIDIchannel_resetAllControllers121"]
    CK = ["--bounds-check", "--pointer-check", "--div-by-zero-check", "--signed-overflow-check", "--undefined-shift-check", "--no-malloc-may-fail"]
    for n, kw in FUNCS:
        c = kw.get("rename", n)
        if n == "realTime_NoteAfterTouch":
            gs.append(Group("rt_" + c, "harness/rt_h.c", "h_" + c, enforce=c, replace=[r for r in REPL], extract=_extract, object_bits=9, checks=CK,
                            unwindset="realTime_NoteAfterTouch.0:130,spec_chan_same_but_aftertouch.0:130,spec_MIDIchannel_eq.0:130", required=[r"postcondition", r"assigns"],
                            funcs=["OPNMIDIplay::" + n], timeout=600, note="addressed channel = one-element window; pointer-arithmetic range check off"))
            continue
        gs.append(Group("rt_" + c, "harness/rt_h.c", "h_" + c, enforce=c, replace=REPL, extract=_extract, object_bits=9,
                        unwindset="spec_inv_ranges.0:17,realTime_NoteAfterTouch.0:130,spec_chan_same_but_aftertouch.0:130,spec_MIDIchannel_eq.0:130", required=[r"postcondition", r"assigns"], funcs=["OPNMIDIplay::" + n], timeout=600))
    gs.append(Group("rt_updatePortamento", "harness/rt_h.c", "h_updatePortamento", enforce="updatePortamento", replace=["pow"], extract=_extract, object_bits=9,
                    unwindset="spec_inv_ranges.0:17", required=[r"postcondition"], funcs=["OPNMIDIplay::updatePortamento"], timeout=600))
    gs.append(Group("rt_setRPN", "harness/rt_h.c", "h_setRPN", enforce="setRPN", replace=["exp"], extract=_extract, object_bits=9,
                    unwindset="spec_inv_ranges.0:17", required=[r"postcondition"], funcs=["OPNMIDIplay::setRPN", "MIDIchannel::updateBendSensitivity"], timeout=600,
                    flags=["--float-overflow-check", "--nan-check", "--conversion-check"]))
    gs.append(Group("rt_resetAllControllers121", "harness/rt_h.c", "h_resetAllControllers121", enforce="MIDIchannel_resetAllControllers121", extract=_extract, object_bits=9,
                    unwindset="memset.0:130", required=[r"postcondition", r"assigns"], funcs=["MIDIchannel::resetAllControllers121", "MIDIchannel::updateBendSensitivity"], timeout=600))
    from vlib.props import C12
    gs.append([g for g in C12.groups(tier) if g.name == "noteon_args_contract"][0])   # argument handling of realTime_NoteOn (shared with C12)
    return gs
