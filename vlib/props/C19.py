"""C19 - Only well-formed, correctly addressed SysEx messages take effect (Route B: extracted handlers)."""
from vlib.pipeline import Group
from vlib import extract_play

LEVEL = "proof"
MANIFEST = dict(
    category="proof",
    text="Contract on the real realTime_SysEx/doUniversalSysEx/doRolandSysEx/doYamahaSysEx bodies (extracted mechanically to C on every run): accepted => well-formed/addressed/exact length/checksum; documented messages => accepted with the documented effect; rejected => mode, master volume, every byte of channel state and the reset/update call counters unchanged. Discharged by CBMC for every byte string of length <= 64 (the property's domain) and every device id, mode and hook state.",
    design_ref="DESIGN.md C19",
    level_note="Trusted: extraction rules R1,R2,R5,R10 (syntactic, fire counts in evidence); environment header; assumed contracts of realTime_ResetState (resets channel state, counted) and noteUpdateAll (requires a valid channel index); debug hook writes nothing the library owns. Message length bounded by 64 (property domain) in the quick tier.",
    technique="CBMC code contracts (DFCC) on mechanically extracted C++ member functions")
TRUSTED = ["extraction rules of vlib/cxx2c.py (syntactic; fire counts recorded)", "harness/env_play.h environment (single player object, ghost counters)",
           "assumed contract: realTime_ResetState", "assumed contract: noteUpdateAll", "debug message hook writes nothing the library owns"]
ASSUMPTIONS = ["message length <= 64 bytes (the property's stated domain)"]
F = "src/opnmidi_midiplay.cpp"
SPECS = [
    dict(file=F, name="OPNMIDIplay::realTime_SysEx", cls="OPNMIDIplay"),
    dict(file=F, name="OPNMIDIplay::doUniversalSysEx", cls="OPNMIDIplay", static=True, must=["R10", "R2", "R5"]),
    dict(file=F, name="OPNMIDIplay::doRolandSysEx", cls="OPNMIDIplay", static=True, must=["R10", "R5"]),
    dict(file=F, name="OPNMIDIplay::doYamahaSysEx", cls="OPNMIDIplay", static=True, must=["R10"]),
]


def _extract(wd):
    return extract_play.emit(wd, SPECS)


FUNCS = ["OPNMIDIplay::realTime_SysEx", "OPNMIDIplay::doUniversalSysEx", "OPNMIDIplay::doRolandSysEx", "OPNMIDIplay::doYamahaSysEx"]
UW = "spec_bytes_named.0:65,spec_MIDIchannel_eq.0:129,spec_sysex_strict.0:65,doRolandSysEx.0:64,doUniversalSysEx.0:66"


def replay(g, obligation, wit, workroot):
    """Library replay: the counterexample's message and device id are sent to a real instance through the public API."""
    from vlib import libreplay
    size = None
    msg = []
    for i in range(64):
        v = wit.get("in_msg[%dl]" % i)
        msg.append(int(v) if v is not None else 0)
    size = wit.get("in_size"); devid = wit.get("in_devid")
    if size is None or devid is None:
        return dict(reproduced=False, note="counterexample does not name size/device id")
    size = int(str(size).rstrip("ul")); devid = int(str(devid).rstrip("ul"))
    hexmsg = "".join("%02x" % b for b in msg[:size])
    r = libreplay.run_driver(workroot, "replay/sysex_driver.cpp", [devid & 0x7F, hexmsg])
    return dict(reproduced=(r["rc"] == 1 and "REPLAY-VIOLATION" in r["stdout"]), driver="replay/sysex_driver.cpp",
                args=[devid, hexmsg], output=r["stdout"], stderr=r["stderr"][-500:])


def groups(tier):
    gs = []
    parts = {1: "acceptance predicate: accepted => well-formed/addressed/exact length/checksum, documented messages => accepted",
             2: "rejected => mode, master volume, reset/update call counters unchanged",
             3: "accepted => documented effect on the mode and exactly one controller reset for the mode messages, none otherwise",
             4: "accepted => master volume takes the message's value (and only then changes)"}
    for part, what in parts.items():
        gs.append(Group("sysex_contract_part%d" % part, "harness/sysex_h.c", "h_realTime_SysEx", enforce="realTime_SysEx",
                        replace=["realTime_ResetState", "noteUpdateAll"], extract=_extract, unwindset=UW, object_bits=9,
                        defines=["SPEC_PART=%d" % part] + ([] if part == 1 else ["NO_REACH"]), required=[r"postcondition", r"assigns"], timeout=900, funcs=FUNCS,
                        note=what + "; checksum loop unwound to the 64-byte domain of the property (complete for that domain)"))
    for k in range(16):
        gs.append(Group("sysex_channel_state_ch%d" % k, "harness/sysex_h.c", "h_realTime_SysEx", enforce="realTime_SysEx",
                        replace=["realTime_ResetState", "noteUpdateAll"], extract=_extract, unwindset=UW, object_bits=9,
                        defines=["SPEC_CH=%d" % k], required=[r"postcondition"], timeout=600, funcs=FUNCS,
                        note="rejected / master-volume / drum-part messages leave every field of channel %d unchanged (drum part: exactly its own flag, set from the data byte)" % k))
    return gs
