"""C19 - Only well-formed, correctly addressed SysEx messages take effect (Route B: extracted handlers)."""
from vlib.pipeline import Group
from vlib import extract_play

LEVEL = "proof"
MANIFEST = dict(
    category="proof",
    text="Contract on the real realTime_SysEx/doUniversalSysEx/doRolandSysEx/doYamahaSysEx bodies (extracted mechanically to C on every run): accepted => well-formed/addressed/exact length/checksum; documented messages => accepted with the documented effect; rejected => mode, master volume, every byte of channel state and the reset/update call counters unchanged. Discharged by CBMC for every byte string of length <= 64 (the property's domain) and every device id, mode and hook state.",
    design_ref="DESIGN.md C19",
    level_note="Trusted: extraction rules R1,R2,R5,R10 (syntactic, fire counts in evidence); environment header; assumed contracts of realTime_ResetState (resets channel state, counted) and noteUpdateAll (requires a valid channel index); debug hook writes nothing the library owns. Message length bounded by 64 (property domain) in the quick tier.",
    technique="CBMC code contracts (DFCC) on mechanically extracted C++ member functions")
TRUSTED = ["extraction rules of vlib/cxx2c.py (syntactic; fire counts recorded)", "harness/env_play.h environment (single player object, ghost counters)",
           "assumed contract: realTime_ResetState", "assumed contract: noteUpdateAll", "debug message hook writes nothing the library owns"]
ASSUMPTIONS = ["message length <= 64 bytes (the property's stated domain)"]
F = "src/opnmidi_midiplay.cpp"
SPECS = [
    dict(file=F, name="OPNMIDIplay::realTime_SysEx", cls="OPNMIDIplay"),
    dict(file=F, name="OPNMIDIplay::doUniversalSysEx", cls="OPNMIDIplay", static=True, must=["R10", "R2", "R5"]),
    dict(file=F, name="OPNMIDIplay::doRolandSysEx", cls="OPNMIDIplay", static=True, must=["R10", "R5"]),
    dict(file=F, name="OPNMIDIplay::doYamahaSysEx", cls="OPNMIDIplay", static=True, must=["R10"]),
]


def _extract(wd):
    return extract_play.emit(wd, SPECS)


def groups(tier):
    return [Group("sysex_contract", "harness/sysex_h.c", "h_realTime_SysEx", enforce="realTime_SysEx",
                  replace=["realTime_ResetState", "noteUpdateAll"], extract=_extract,
                  unwindset="spec_bytes_named.0:65,spec_MIDIchannel_eq.0:129,spec_table_same_except_drum_flag_of.0:17,spec_sysex_strict.0:65,doRolandSysEx.0:64,doUniversalSysEx.0:66",
                  required=[r"postcondition", r"assigns"], timeout=600,
                  funcs=["OPNMIDIplay::realTime_SysEx", "OPNMIDIplay::doUniversalSysEx", "OPNMIDIplay::doRolandSysEx", "OPNMIDIplay::doYamahaSysEx"],
                  note="checksum loop unwound to the 64-byte domain of the property (complete for that domain)")]
