"""C02 - Untrusted bank data is rejected or loaded safely; loaded banks are playable."""
from vlib.pipeline import Group
from vlib.props import C15, C11

LEVEL = "proof"
MANIFEST = dict(
    category="proof",
    text="Part 1 (loaders): the OPNI loader contract and the bank loader's loop-head segments of the real wopn_file.c are discharged with NO well-formedness assumption on the block (any bytes, any length, mem object of exactly `length` bytes): every read is inside the block, the result is a defined error code or a well-formed file. Part 2: the converters copy every field. Part 3 (playable): contracts on the real OPN2::noteOn/noteOff (extracted) hold for EVERY double tone and every cached instrument: the call returns (unwinding assertions on both halving loops cover all doubles) and writes only registers of its own channel; touchNote/range: see C11.",
    design_ref="DESIGN.md C02",
    level_note="Shares the loader groups with C15 (same bounds: bank index < 64 in the two data-moving segment families; WOPN_Init contract assumed). exp() is replaced by a contract that may return ANY double. setPatch/setPan and the path from realTime_NoteOn to noteOn (the tone argument) are covered under C03/C12 where built.",
    technique="CBMC code contracts (DFCC) and loop-head cut-point segments on the in-place C source; contracts on mechanically extracted C++ member functions")
TRUSTED = list(C15.TRUSTED) + ["extraction rules of vlib/cxx2c.py", "harness/env_opn2.h register tap", "exp(): contract returning any double"]
ASSUMPTIONS = []


def _x_noteon(wd):
    return C11.extract_opn2(wd, [("OPN2::noteOn", dict(must=["R10", "R3"], post=[(r"s_commonFreq\(", "s_commonFreq_(")])),
                                  ("OPN2::noteOff", dict())], )


def groups(tier):
    names = ("opni_load_contract", "ins_parse_contract", "ins_parse_frame_contract", "bank_load_seg", "bank_layout_lemma", "opni_load_save_load")
    gs = [g for g in C15.groups(tier) if g.name.startswith(names)]
    gs.append(Group("noteOn_contract", "harness/opn2_h.c", "h_noteOn", enforce="noteOn", replace=["exp"], extract=_x_noteon,
                    loops=True, pre_unwindset="noteOn.2:5", unwindset="h_noteOn.0:5", required=[r"postcondition", r"assigns", r"loop_invariant_step", r"decreases|loop_decreases|variant"], timeout=900, object_bits=9,
                    flags=["--float-overflow-check", "--nan-check", "--conversion-check"],
                    funcs=["OPN2::noteOn", "OPN2::writeRegI", "getOpnChannel", "s_commonFreq"],
                    note="every double tone; both halving loops carry loop contracts (invariant: finite, non-negative, bounded; variants: the octave counter and the integer part of the frequency) = termination for all inputs, no unwinding bound"))
    gs.append(Group("noteOff_contract", "harness/opn2_h.c", "h_noteOff", enforce="noteOff", extract=_x_noteon, required=[r"postcondition"], object_bits=9,
                    funcs=["OPN2::noteOff"]))
    return gs
