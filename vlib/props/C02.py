"""C02 - Untrusted bank data is rejected or loaded safely; loaded banks are playable."""
from vlib.pipeline import Group
from vlib.props import C15, C11

LEVEL = "proof"
MANIFEST = dict(
    category="proof",
    text="Part 1 (loaders): the OPNI loader contract and the bank loader's loop-head segments of the real wopn_file.c are discharged with NO well-formedness assumption on the block (any bytes, any length, mem object of exactly `length` bytes): every read is inside the block, the result is a defined error code or a well-formed file. Part 2: the converters copy every field. Part 3 (playable): contracts on the real OPN2::noteOn/noteOff (extracted) hold for EVERY double tone and every cached instrument; OPN2::setPatch uploads exactly the 30 registers of the given timbre to its own channel and caches it; OPN2::setPan writes one pan value and B4 of its own channel: the call returns (unwinding assertions on both halving loops cover all doubles) and writes only registers of its own channel; touchNote/range: see C11.",
    design_ref="DESIGN.md C02",
    level_note="Shares the loader groups with C15 (same bounds: bank index < 64 in the two data-moving segment families; WOPN_Init contract assumed). exp() is replaced by a contract that may return ANY double. setPatch and setPan are under contract here (register-exact). The path from realTime_NoteOn to noteOn (the tone argument through noteUpdate) is not covered.",
    technique="CBMC code contracts (DFCC) and loop-head cut-point segments on the in-place C source; contracts on mechanically extracted C++ member functions")
TRUSTED = list(C15.TRUSTED) + ["extraction rules of vlib/cxx2c.py", "harness/env_opn2.h register tap", "exp(): contract returning any double"]
ASSUMPTIONS = []


def _x_noteon(wd):
    return C11.extract_opn2(wd, [("OPN2::noteOn", dict(must=["R10", "R3"], post=[(r"s_commonFreq\(", "s_commonFreq_(")])),
                                  ("OPN2::noteOff", dict())], )


def _x_cvt(wd):
    from vlib import extract_play
    C = "src/opnmidi_cvt.hpp"
    specs = []
    for fn, t in (("cvt_generic_to_FMIns", "WOPNInstrument"), ("cvt_generic_to_FMIns", "OPN2_Instrument"), ("cvt_FMIns_to_generic", "OPN2_Instrument")):
        specs.append(dict(file=C, name=fn, cls=None, rename="%s_%s" % (fn, t), static=True, must=["R4"],
                          sig_post=[(r"\bWOPNI\b", t)], post=[(r"\bins\.op\[1\] = ins\.op\[0\];", "ins.op[1] = ins.op[0];")] if fn == "cvt_generic_to_FMIns" else ()))
    return extract_play.emit(wd, specs)


def _x_patch(wd):
    return C11.extract_opn2(wd, [("OPN2::setPatch", dict(must=["R10", "R4"])), ("OPN2::setPan", dict(must=["R10", "R3"]))])


def groups(tier):
    names = ("opni_load_contract", "ins_parse_contract", "ins_parse_frame_contract", "bank_load_seg", "bank_layout_lemma", "opni_load_save_load")
    gs = [g for g in C15.groups(tier) if g.name.startswith(names)]
    gs.append(Group("noteOn_contract", "harness/opn2_h.c", "h_noteOn", enforce="noteOn", replace=["exp"], extract=_x_noteon,
                    loops=True, pre_unwindset="noteOn.2:5", unwindset="h_noteOn.0:5", required=[r"postcondition", r"assigns", r"loop_invariant_step", r"decreases|loop_decreases|variant"], timeout=900, object_bits=9,
                    flags=["--float-overflow-check", "--nan-check", "--conversion-check"],
                    funcs=["OPN2::noteOn", "OPN2::writeRegI", "getOpnChannel", "s_commonFreq"],
                    note="every double tone; both halving loops carry loop contracts (invariant: finite, non-negative, bounded; variants: the octave counter and the integer part of the frequency) = termination for all inputs, no unwinding bound"))
    gs.append(Group("noteOff_contract", "harness/opn2_h.c", "h_noteOff", enforce="noteOff", extract=_x_noteon, required=[r"postcondition"], object_bits=9,
                    funcs=["OPN2::noteOff"]))
    CV = ["cvt_generic_to_FMIns_WOPNInstrument", "cvt_generic_to_FMIns_OPN2_Instrument", "cvt_FMIns_to_generic_OPN2_Instrument"]
    for h, f in (("h_to_FMIns_WOPN", CV[0]), ("h_to_FMIns_OPNI", CV[1]), ("h_from_FMIns_OPNI", CV[2])):
        gs.append(Group("cvt_" + f, "harness/cvt_h.c", h, enforce=f, extract=_x_cvt, required=[r"postcondition", r"assigns"], unwind=40,
                        funcs=[f.replace("_WOPNInstrument", "<WOPNInstrument>").replace("_OPN2_Instrument", "<OPN2_Instrument>")], includes=["src"]))
    gs.append(Group("cvt_opni_write_read_back_lemma", "harness/cvt_h.c", "h_opni_write_read_back", replace=CV[1:], extract=_x_cvt, required=[r"READBACK"], unwind=40,
                    funcs=CV[1:], note="lemma over the two converter contracts (both calls replaced)"))
    gs.append(Group("setPatch_contract", "harness/opn2_h.c", "h_setPatch", enforce="setPatch", extract=_x_patch, object_bits=9,
                    unwindset="spec_setpatch_writes.0:8,spec_setpatch_writes.1:8,setPatch.0:8,setPatch.1:8", required=[r"postcondition", r"assigns", r"TAP chip index"], timeout=600,
                    funcs=["OPN2::setPatch"]))
    gs.append(Group("setPan_contract", "harness/opn2_h.c", "h_setPan", enforce="setPan", extract=_x_patch, object_bits=9,
                    required=[r"postcondition", r"assigns", r"TAP chip index"], timeout=600, funcs=["OPN2::setPan", "OPN2::writePan"]))
    return gs
