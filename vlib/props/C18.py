"""C18 - Settings are transactional (Route B: C API setters of src/opnmidi.cpp)."""
from vlib.pipeline import Group
from vlib import extract_play

LEVEL = "proof"
MANIFEST = dict(
    category="proof",
    text="Contracts on the real opn2_setNumChips, opn2_switchEmulator, opn2_setDeviceIdentifier and opn2_setVolumeRangeModel (+ OPN2::setVolumeScaleModel) bodies (extracted on every run), for every argument value and a NULL or valid device: a failing call leaves every field of the setup, the device id, the synth's chip count untouched, triggers no chip rebuild and (for a valid device) leaves an error text; a succeeding call stores exactly the value given and is accepted exactly for the documented range; the volume model setter maps explicit models one-to-one and AUTO to the loaded bank's own model.",
    design_ref="DESIGN.md C18",
    level_note="Failure side: the setters that can fail. Success side: setter followed by its real getter for LFO enable/frequency, channel allocation mode, auto arpeggio, volume model, chip count, and the stored/in-force flags for modulator scaling, soft panning, full-range brightness. Re-application: OPNMIDIplay::applySetup (range up to the chip rebuild) makes every live synth setting the documented function of the stored setup and the bank's own values and touches neither the stored setup nor hooks nor device id. Not covered: the getters opn2_getChipType/opn2_getEmulator, persistence across applySetup/partialReset/resetMIDI and file loads, the per-bank overrides, rejected bank/music files. Assumed: partialReset (counted), OPN2::setupLocked, opn2_isEmulatorAvailable (only ids inside the enum are available - the property of fix 46ab746), setErrorString (counted).",
    technique="CBMC code contracts (DFCC) on mechanically extracted C API functions")
TRUSTED = ["extraction rules of vlib/cxx2c.py", "harness/env_play.h", "assumed contracts: partialReset, OPN2::setupLocked, opn2_isEmulatorAvailable, setErrorString"]
ASSUMPTIONS = []
F = "src/opnmidi.cpp"
COMMON_POST = [(r"play->setErrorString\(", "setErrorString("), (r"play->partialReset\(\)", "partialReset()")]
SPECS = [
    dict(file="src/opnmidi_midiplay.cpp", name="OPNMIDIplay::setDeviceId", cls="OPNMIDIplay", static=True, must=["R10"]),
    dict(file=F, name="opn2_setNumChips", cls=None, must=["R2", "R3"], post=COMMON_POST + [(r"synth\.setupLocked\(\)", "OPN2_setupLocked(&synth)")]),
    dict(file=F, name="opn2_switchEmulator", cls=None, post=COMMON_POST),
    dict(file="src/opnmidi_opn2.cpp", name="OPN2::setVolumeScaleModel", cls="OPN2", static=True, must=["R10"]),
    dict(file=F, name="opn2_setVolumeRangeModel", cls=None, must=["R2", "R3"], post=[(r"synth\.setupLocked\(\)", "OPN2_setupLocked(&synth)"), (r"synth\.setVolumeScaleModel\(", "setVolumeScaleModel(")]),
    dict(file=F, name="opn2_setDeviceIdentifier", cls=None, must=["R2"], post=[(r"play->setDeviceId\(", "setDeviceId(")]),
]


SY = [(r"synth\.setupLocked\(\)", "OPN2_setupLocked(&synth)")]
def _simple(name, **kw):
    d = dict(file=F, name=name, cls=None); d.update(kw); return d
SPECS += [
    dict(file="src/opnmidi_opn2.cpp", name="OPN2::getVolumeScaleModel", cls="OPN2", static=True, must=["R10"]),
    _simple("opn2_getNumChips"), _simple("opn2_getVolumeRangeModel", post=[(r"play->m_synth->getVolumeScaleModel\(\)", "getVolumeScaleModel()")]),
    _simple("opn2_setLfoEnabled", must=["R3"], post=[(r"synth\.commitLFOSetup\(\)", "commitLFOSetup()")]), _simple("opn2_getLfoEnabled"),
    _simple("opn2_setLfoFrequency", must=["R3"], post=[(r"synth\.commitLFOSetup\(\)", "commitLFOSetup()")]), _simple("opn2_getLfoFrequency"),
    _simple("opn2_setChannelAllocMode", must=["R3", "R2"]), _simple("opn2_getChannelAllocMode", must=["R2"]),
    _simple("opn2_setAutoArpeggio"), _simple("opn2_getAutoArpeggio"),
    _simple("opn2_setScaleModulators"), _simple("opn2_setSoftPanEnabled"), _simple("opn2_setFullRangeBrightness"),
]


SPECS += [dict(file="src/opnmidi_midiplay.cpp", name="OPNMIDIplay::applySetup", cls="OPNMIDIplay", rename="applySetup_prefix", must=["R10", "R3", "R12", "R2"],
               cut_at=r"\n[ \t]*synth\.reset\(m_setup\.emulator", epilogue="    g_apply.chipType = chipType; g_apply.reached = true;",
               post=[(r"synth\.setVolumeScaleModel\(", "setVolumeScaleModel(")])]


def _extract(wd):
    return extract_play.emit(wd, SPECS)


def replay(g, obligation, wit, workroot):
    """Library replay: the setter is called with the counterexample's argument on a real instance."""
    from vlib import libreplay
    fn = g.name.replace("api_", "")
    v = wit.get("in_uarg") if fn == "opn2_setDeviceIdentifier" else wit.get("in_arg")
    arg = int(str(v).rstrip("ul")) if v is not None else 0
    if arg >= 2**31: arg -= 2**32
    r = libreplay.run_driver(workroot, "replay/api_driver.cpp", [fn, arg])
    return dict(reproduced=(r["rc"] == 1 and "REPLAY-VIOLATION" in r["stdout"]), driver="replay/api_driver.cpp", args=[fn, arg], output=r["stdout"][-400:], stderr=r["stderr"][-600:])


def groups(tier):
    REPL = ["setErrorString", "partialReset", "OPN2_setupLocked", "opn2_isEmulatorAvailable"]
    return [Group("api_" + n, "harness/api_h.c", "h_" + n, enforce=n, replace=REPL, extract=_extract, object_bits=9,
                  required=[r"postcondition", r"assigns"], funcs=[n], timeout=600)
            for n in ("opn2_setNumChips", "opn2_switchEmulator", "opn2_setDeviceIdentifier", "opn2_setVolumeRangeModel")] + \
           [Group("applySetup_prefix_contract", "harness/api_h.c", "h_applySetup_prefix", enforce="applySetup_prefix", extract=_extract, object_bits=9,
                  required=[r"postcondition", r"assigns"], funcs=["OPNMIDIplay::applySetup (range up to the chip rebuild)", "OPN2::setVolumeScaleModel"], timeout=600)] + \
           [Group("pair_" + n, "harness/api_h.c", "h_pair_" + n, replace=REPL + ["commitLFOSetup"], extract=_extract, object_bits=9, required=[r"PAIR"],
                  funcs=fs, timeout=600, note="setter followed by its getter, both real bodies; lemma harness")
            for n, fs in (("lfoEnabled", ["opn2_setLfoEnabled", "opn2_getLfoEnabled"]), ("lfoFrequency", ["opn2_setLfoFrequency", "opn2_getLfoFrequency"]),
                          ("channelAlloc", ["opn2_setChannelAllocMode", "opn2_getChannelAllocMode"]), ("autoArpeggio", ["opn2_setAutoArpeggio", "opn2_getAutoArpeggio"]),
                          ("flags", ["opn2_setScaleModulators", "opn2_setSoftPanEnabled", "opn2_setFullRangeBrightness"]),
                          ("volumeModel", ["opn2_setVolumeRangeModel", "opn2_getVolumeRangeModel", "OPN2::getVolumeScaleModel"]),
                          ("numChips", ["opn2_setNumChips", "opn2_getNumChips"]))]
