"""C10 - Programmed pitch = key + bend*range + instrument offset (in tune): OPN2::noteOn part."""
import os, re, subprocess, tempfile, time, json
from fractions import Fraction
from vlib.pipeline import Group, VERIF, REPO, ExtractionError
from vlib.props import C02

LEVEL = "proof"
MANIFEST = dict(
    category="proof",
    text="OPN2::noteOn (extracted on every run). PROVED for every double p and every cached instrument (contract, loop contracts): the call returns; it writes nothing or exactly DT/MUL of the four operators, A4 (block <= 7, F-number high bits) before A0 (F-number low), key-on of its own channel last; detune nibbles preserved; no float overflow, NaN or undefined float-to-int conversion. CHECKED ON A GRID (bounded, native execution of the same extracted text): for both clock families and every p = k/64 semitone from 0 to 116 (6.6 kHz, top of the multiplier-free range) the written block/F-number is within one F-number step of 440*2^((p-69)/12)*144*2^21/clock and non-decreasing in p. Caller side (the Upd_Pitch statement range of OPNMIDIplay::noteUpdate, extracted, rule R12): PROVED for every channel state - exactly one noteOn to the voice's own chip channel, none for a note held only by the pedal, vibrato applied exactly when a level is set and the note's delay has passed, with the channel's own phase, and with no bend, offset, vibrato or second voice the tone is the key tone; CHECKED ON A GRID (bounded, native execution of the same extracted text, 362880 cases): the tone is bit for bit key tone + (bend * range + note offset [+ vibrato * depth * sin]) + second-voice fine tune. Constant lemma (exact rational arithmetic on the constants read from the source): the three constants of the source (0.057762265, 321.88557, 309.12412) deviate from ln2/12 and 440*2^(-69/12)*144*2^21/clock by less than half an F-number step over the whole key range (128*|dk| + |dcoef|/coef < 1/4094; measured 6e-9 + 1.1e-5).",
    design_ref="DESIGN.md A.1 / C10",
    level_note="NOT covered: 're-pitches every sounding note at once' (noteUpdateAll iterates a pl_list), the glide/portamento update of currentTone, the tone formula for ALL doubles (CBMC does not finish the equality of two floating-point evaluations; it is checked on a grid instead), tones between grid points (the nearest-step relation for ALL doubles would need reasoning about exp() and rounding that was not attempted), the multiplier range above 6.6 kHz. exp(): in the contract group any double may come back; the sweep uses libm.",
    technique="CBMC code contracts with loop contracts on the extracted member function; bounded native sweep of the same text; exact-arithmetic constant lemma")
TRUSTED = list(C02.TRUSTED) + ["libm exp/pow of the host in the native sweep"]
ASSUMPTIONS = ["grid of 1/64 semitone for the nearest-step and monotonicity checks (bounded)", "pitch range groups: channel index fixed per group (0, 9, 15); finite operands (|key tone| <= 1e6, |bend range|, |vibrato depth| <= 1e3, |phase| <= 1e12, bend in -8192..8191); no note hook installed; find_user by a ghost entry; libm sin = any value in [-1,1]", "tone formula of the pitch range: bounded native grid (362880 cases), not deduction"]


from vlib import extract_play
PITCHRANGE = dict(file="src/opnmidi_midiplay.cpp", name="OPNMIDIplay::noteUpdate", cls=None, rename="noteUpdate_pitch", must=["R12", "R2"],
                  cut_from=r"\n[ \t]*if\(props_mask & Upd_Pitch\)\n", cut_at=r"\n    \}\n\n    if\(info\.chip_channels_count == 0\)", epilogue="    return;",
                  params_override="size_t midCh, uint16_t c, unsigned props_mask, MIDIchannel *m_midiChannels, const Phys *ins__p, const OpnInstMeta *ains__p, NoteInfo *info__p, "
                                  "double currentTone, int16_t noteTone, size_t midiins, uint8_t vol, MIDIEventHooks *hooks__p",
                  ref_params=["ins", "ains", "info", "hooks"], sig_post=[(r"^bool$", "void")],
                  post=[(r"(?:OpnChannel::)?users_iterator d = (?:g_play\.)?m_chipChannels\[c\]\.find_user\(my_loc\);", "LocationData *d = find_user_c(c);   /* R7: iterator -> cell pointer */"),
                        (r"d\.is_end\(\)", "(d == NULL)"), (r"d->value\.", "d->"), (r"(?:OpnChannel::LocationData::)?Sustain_None", "Sustain_None"),
                        (r"ins\.ains == ains\.op\[1\]", "spec_OpnTimbre_eq(&ins.ains, &ains.op[1])   /* operator== of the byte-comparable packed struct */"),
                        (r"(?:OpnInstMeta::)?Flag_Pseudo8op", "Flag_Pseudo8op"), (r"synth\.noteOn\(", "noteOn_record(")])


def _extract_pitch(wd):
    return extract_play.emit(wd, [PITCHRANGE])


def groups(tier):
    gs = [g for g in C02.groups(tier) if g.name in ("noteOn_contract", "noteOff_contract")]
    for ch in (0, 9, 15):
      gs.append(Group("noteUpdate_pitch_range_contract_ch%d" % ch, "harness/pitch_h.c", "h_noteUpdate_pitch", enforce="noteUpdate_pitch", defines=["PITCH_CH=%d" % ch],
                    extract=_extract_pitch, object_bits=9, required=[r"postcondition", r"assigns"], timeout=600,
                    checks=["--bounds-check", "--pointer-check", "--div-by-zero-check", "--signed-overflow-check", "--undefined-shift-check", "--no-malloc-may-fail", "--conversion-check", "--float-overflow-check", "--nan-check"],
                    funcs=["OPNMIDIplay::noteUpdate (range: the Upd_Pitch branch)"],
                    note="caller side of OPN2::noteOn: the tone is key tone + bend*range + note offset [+ vibrato] + second-voice fine tune; a pedal-held note is not bent"))
    return gs


def extra(tier, workroot):
    out = []
    # ---- constant lemma: exact arithmetic on the constants as they appear in the current source
    name = "pitch_constants_lemma"
    try:
        src = open(os.path.join(REPO, "src/opnmidi_opn2.cpp")).read()
        m1 = re.search(r"std::exp\((0\.\d+) \* tone\)", src); m2 = re.search(r"coef = (\d+\.\d+); break;\s*case OPNChip_OPNA:\s*coef = (\d+\.\d+); break;", src)
        if not m1 or not m2:
            out.append(dict(name=name, status="tool", detail="constants not found in opnmidi_opn2.cpp (extraction broke)"))
        else:
            import math
            k = Fraction(m1.group(1)); c2 = Fraction(m2.group(1)); ca = Fraction(m2.group(2))
            ln2_12 = Fraction(math.log(2.0)).limit_denominator(10**18) / 12
            def ideal(clock):   # 440 * 2^(-69/12) * 144 * 2^21 / clock, to ~1e-15
                return Fraction(440.0 * 2.0 ** (-69.0 / 12.0)).limit_denominator(10**18) * 144 * 2**21 / clock
            e1 = abs(k - ln2_12); e2 = abs(c2 / ideal(7670454) - 1); e3 = abs(ca / ideal(7987200) - 1)
            # budget: nearest rounding costs half an F-number step; the constants may cost the other half at the top F-number
            # (2047) over the whole key range (tone <= 128):  128*|dk| + |dcoef|/coef < 1/(2*2047)
            half_step = Fraction(1, 2 * 2047)
            ok = 128 * e1 + e2 < half_step and 128 * e1 + e3 < half_step
            det = "|k - ln2/12| = %.3e, OPN2 coef rel. err %.3e, OPNA coef rel. err %.3e" % (float(e1), float(e2), float(e3))
            if ok:
                out.append(dict(name=name, status="ok", obligations=3, discharged=3, detail=det))
            else:
                path = os.path.join(VERIF, "replays", "C10"); os.makedirs(path, exist_ok=True); path = os.path.join(path, "constants.json")
                json.dump(dict(property="C10", obligation=name, detail=det, constants=[m1.group(1), m2.group(1), m2.group(2)]), open(path, "w"), indent=1)
                out.append(dict(name=name, status="violated", detail=det, replay=path, reproduced=True))
    except Exception as e:
        out.append(dict(name=name, status="tool", detail=repr(e)))
    # ---- bounded native sweep of the extracted text
    name = "pitch_grid_sweep_native"
    wd = tempfile.mkdtemp(prefix="c10_", dir=workroot)
    try:
        C02._x_noteon(wd)
    except ExtractionError as e:
        return out + [dict(name=name, status="tool", detail="extraction broke: %s" % e)]
    exe = os.path.join(wd, "sweep")
    r = subprocess.run(["gcc", "-O2", "-o", exe, os.path.join(VERIF, "harness/c10_sweep.c"), "-I" + wd, "-I" + os.path.join(VERIF, "harness"), "-I" + os.path.join(REPO, "include"), "-lm"], capture_output=True, text=True)
    if r.returncode != 0:
        return out + [dict(name=name, status="tool", detail="native compile failed: " + r.stderr[-600:])]
    t0 = time.time()
    try:
        r = subprocess.run([exe], capture_output=True, text=True, timeout=120)
    except subprocess.TimeoutExpired:
        # a hang IS the failure mode of a broken guard in noteOn: report it as a violation witnessed natively
        path = os.path.join(VERIF, "replays", "C10"); os.makedirs(path, exist_ok=True); path = os.path.join(path, "sweep.json")
        json.dump(dict(property="C10", obligation=name, detail="noteOn did not return within 120 s during the sweep"), open(path, "w"), indent=1)
        return out + [dict(name=name, status="violated", detail="noteOn did not return during the sweep", replay=path, reproduced=True)]
    line = (r.stdout.strip().splitlines() or [""])[-1]
    if r.returncode == 0 and line.startswith("SWEEP ok"):
        out.append(dict(name=name, status="ok", obligations=1, discharged=1, evaluations=int(line.split("evaluations=")[1]), bounded="grid of 1/64 semitone, p in [0, 116], both clock families",
                        detail=line, method="native execution of the extracted real function body (bounded enumeration, not deduction)"))
    elif "SWEEP VIOLATION" in line:
        path = os.path.join(VERIF, "replays", "C10"); os.makedirs(path, exist_ok=True); path = os.path.join(path, "sweep.json")
        json.dump(dict(property="C10", obligation=name, failing_input=line, native_replay=dict(reproduced=True)), open(path, "w"), indent=1)
        out.append(dict(name=name, status="violated", detail=line, replay=path, reproduced=True))
    else:
        out.append(dict(name=name, status="tool", detail="unexpected output rc=%s %s %s" % (r.returncode, line, r.stderr[-200:])))
    # ---- bounded native sweep of the extracted Upd_Pitch range of noteUpdate (tone formula)
    name = "pitch_composition_sweep_native"
    wd2 = tempfile.mkdtemp(prefix="c10p_", dir=workroot)
    try:
        _extract_pitch(wd2)
        from vlib import env as _env
        if not os.path.exists(os.path.join(wd2, "verif_types.h")):
            _env.write_types(wd2)
    except ExtractionError as e:
        return out + [dict(name=name, status="tool", detail="extraction broke: %s" % e)]
    exe = os.path.join(wd2, "psweep")
    r = subprocess.run(["gcc", "-O1", "-ffp-contract=off", "-o", exe, os.path.join(VERIF, "harness/c10_pitch_sweep.c"), "-I" + wd2, "-I" + os.path.join(VERIF, "contracts"), "-I" + os.path.join(VERIF, "harness"),
                        "-I" + os.path.join(REPO, "include"), "-I" + os.path.join(REPO, "src"), "-DLIBOPNMIDI_VERIF", "-lm"], capture_output=True, text=True)
    if r.returncode != 0:
        return out + [dict(name=name, status="tool", detail="native compile failed: " + r.stderr[-900:])]
    r = subprocess.run([exe], capture_output=True, text=True, timeout=300)
    line = (r.stdout.strip().splitlines() or [""])[-1]
    if r.returncode == 0 and line.startswith("SWEEP ok"):
        out.append(dict(name=name, status="ok", obligations=1, discharged=1, evaluations=int(line.split("evaluations=")[1]), bounded="grid: 7 bends x 5 ranges x 4 offsets x 6 key tones x 4 vibrato levels x 3 sources x second-voice cases x user-entry cases",
                        detail=line, method="native execution of the extracted Upd_Pitch range of noteUpdate (bounded enumeration, not deduction)"))
    elif "SWEEP VIOLATION" in line:
        path = os.path.join(VERIF, "replays", "C10"); os.makedirs(path, exist_ok=True); path = os.path.join(path, "pitch_sweep.json")
        json.dump(dict(property="C10", obligation=name, failing_input=line, native_replay=dict(reproduced=True)), open(path, "w"), indent=1)
        out.append(dict(name=name, status="violated", detail=line, replay=path, reproduced=True))
    else:
        out.append(dict(name=name, status="tool", detail="unexpected output rc=%s %s %s" % (r.returncode, line, r.stderr[-300:])))
    return out
