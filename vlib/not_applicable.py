"""Properties not claimed, with the reason (mirrored into MANIFEST.json by tools/gen_manifest.py)."""
_NOTYET = "contract-based check not built yet in this session (planned, see DESIGN.md section 0); not claimed until it is"
NOT_APPLICABLE = {
    "C01": _NOTYET, "C04": _NOTYET, "C05": _NOTYET, "C06": _NOTYET,
    "C07": "sequencer delivery is produced by std::vector/std::list/std::set manipulating C++ (buildSmfTrackData, buildTimeLine, processEvents) that CBMC's C++ front end cannot parse and no syntactic extraction turns into C; the statement is a trace equality against an independent reading of SMF timing, i.e. a second interpreter = a model, which this technique family excludes (DESIGN.md C07)",
    "C08": "seek equivalence is a trace equality between two runs of the STL-based sequencer (Route C code, not reachable by CBMC contracts); contracts on the reachable fragments do not imply the statement (DESIGN.md C07)",
    "C09": "loop-point repetition counts are a whole-history property of processEvents/seek over std::list iterators and floating-point time; not expressible as a per-function contract on code CBMC can read (DESIGN.md C07)",
    "C10": _NOTYET, "C12": _NOTYET, "C14": _NOTYET, "C16": _NOTYET,
    "C17": "the statement is about the event sequence delivered by the sequencer and its timing (Route C code); at converter level the only available oracle would be a re-implementation of the converter as specification, i.e. proving one hand-written translation against another (DESIGN.md C17); converter memory safety is handled under C01",
    "C20": "a spectral/envelope property of >20000 lines of emulator cores (five of seven in templated C++) integrated over thousands of samples with percent tolerances; no contract on a single function expresses the fundamental of the rendered signal (DESIGN.md C20)",
}
