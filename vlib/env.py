"""Generates the *types* part of the Route-B environment from the real headers on every run:
struct layouts, enums and typedefs are extracted, never re-typed by hand (DESIGN.md section 2, Route B)."""
import os, re
from . import cxx2c as X
from .pipeline import REPO, ExtractionError


def _read(rel):
    return open(os.path.join(REPO, rel)).read()


def types_header():
    """Returns (text, info) of verif_types.h"""
    out = ["/* GENERATED on every run from the headers of the current /repo tree - do not edit */",
           "#ifndef VERIF_TYPES_H", "#define VERIF_TYPES_H",
           "#include <stdint.h>", "#include <stddef.h>", "#include <stdbool.h>", "#include <string.h>",
           "#include <math.h>", "#include <float.h>", "#include <sys/types.h>",
           '#include "opnmidi.h"   /* the public C header of the library, as is */']
    info = {}
    for en in re.findall(r"(?m)^enum\s+(\w+)\s*$", X.strip_comments(_read("include/opnmidi.h"))):
        out.append("typedef enum %s %s;" % (en, en))
    for sn in re.findall(r"(?m)^struct\s+(\w+)\s*$", X.strip_comments(_read("include/opnmidi.h"))):
        out.append("typedef struct %s %s;" % (sn, sn))
    # ---- opnbank.h
    t = X.strip_comments(_read("src/opnbank.h"))
    for m in re.finditer(r"(?m)^enum\s*\{[^}]*\}\s*;", t):
        out.append(m.group(0))
    out.append("#pragma pack(push, 1)")
    for s in ("OPN_Operator", "OpnTimbre", "OpnInstMeta"):
        pre, d, mem = X.struct_to_c(t, s, "opnbank.h")
        out += pre + [d]
        info[s] = mem
    out.append("#pragma pack(pop)")
    pre, d, mem = X.struct_to_c(t, "OpnBankSetup", "opnbank.h")
    out += pre + [d]
    # ---- chip family enum (macro generated in the original)
    t = X.strip_comments(_read("src/chips/opn_chip_family.h"))
    m = re.search(r"#define\s+OPN_FAMILY_EACH\(F\)\s*\\\s*\n\s*((?:F\(\w+\)\s*)+)", t)
    if not m:
        raise ExtractionError("OPN_FAMILY_EACH not found")
    fams = re.findall(r"F\((\w+)\)", m.group(1))
    out.append("typedef enum OPNFamily { %s, OPNChip_Count } OPNFamily;" % ", ".join("OPNChip_" + f for f in fams))
    for fam, blk in re.findall(r"struct OPNFamilyTraits<OPNChip_(\w+)>\s*\{\s*enum\s*\{([^}]*)\}", t):
        for nm, val in re.findall(r"(\w+)\s*=\s*(\d+)", blk):
            out.append("enum { OPNFamilyTraits_%s_%s = %s };" % (fam, nm, val))
    # ---- private.hpp: nothing structural needed
    # ---- midiplay.hpp
    t = X.strip_comments(_read("src/opnmidi_midiplay.hpp"))
    pre, d, mem = X.struct_to_c(t, "MIDIEventHooks", "opnmidi_midiplay.hpp")
    out += pre + [d]
    out.append("/* pl_list<T> layouts: private data members of the real class, T substituted */")
    tl = X.strip_comments(_read("src/structures/pl_list.hpp"))
    out.append("#define VERIF_PL_LIST(T) \\\n  typedef struct pl_cell_##T pl_cell_##T; \\\n"
               "  typedef struct pl_basic_cell_##T { pl_cell_##T *prev, *next; } pl_basic_cell_##T; \\\n"
               "  struct pl_cell_##T { pl_cell_##T *prev, *next; T value; }; \\\n"
               "  typedef struct pl_list_##T { %s } pl_list_##T;" % _pl_list_fields(tl))
    tm = {"pl_list<NoteInfo>": "pl_list_NoteInfo", "pl_list<LocationData>": "pl_list_LocationData",
          "AdlMIDI_UPtr<Synth>": "struct OPN2 *", "MIDIchannel::NoteInfo::Phys": "Phys"}
    body = X.class_body(t, "OPNMIDIplay", "opnmidi_midiplay.hpp")
    # nested types in dependency order
    mb = "struct MIDIchannel_wrap {" + body + "}"
    for s, after in (("MIDIchannel", "NoteInfo"), ("OpnChannel", "LocationData")):
        pre, d, mem = X.struct_to_c(body, s, "opnmidi_midiplay.hpp", type_map=tm)
        # the pl_list instantiation must come after its element type and before the owner
        emitted = []
        for p in pre:
            emitted.append(p)
            if re.match(r"typedef struct %s " % after, p):
                emitted.append("VERIF_PL_LIST(%s)" % after)
        out += emitted + [d]
        info[s] = mem
    pre, d, mem = X.struct_to_c(body, "Setup", "opnmidi_midiplay.hpp")
    out += pre + [d]
    info["Setup"] = mem
    # OPNMIDIplay's own enums
    for m in re.finditer(r"(?m)^\s*enum(\s+\w+)?\s*\{[^}]*\}\s*;", _top_level_only(body)):
        e = m.group(0).strip()
        mm = re.match(r"enum\s+(\w+)\s*\{([^}]*)\}", e)
        if mm:
            out.append("typedef enum %s {%s} %s;" % (mm.group(1), mm.group(2), mm.group(1)))
        else:
            out.append(e)
    # ---- opn2.hpp: the synth object
    t = X.strip_comments(_read("src/opnmidi_opn2.hpp"))
    out.append("typedef struct BankMap BankMap;  /* opaque here; contracts over a ghost view (see bank map environment) */")
    out.append("struct BankMap { void *opaque; size_t m_size_ghost; };")
    out.append("typedef struct Bank Bank;")
    pre, d, mem = X.struct_to_c(t, "OPN2", "opnmidi_opn2.hpp",
                                type_map={"BankMap": "BankMap", "AdlMIDI_SPtr<OPNChipBase >": "void *",
                                          "AdlMIDI_SPtr<OPNChipBase>": "void *"})
    out += [p for p in pre if not p.startswith("typedef BasicBankMap")] + [d]
    info["OPN2"] = mem
    out.append("typedef struct OPN2 Synth;")
    # ---- OPNMIDIplay data members as one struct (the single player object of the environment)
    pre2, d2, mem2 = X._struct_body_to_c(_top_level_only(body, keep_data=True), "OPNMIDIplay", tm,
                                         drop_types=("std::string", "std::map", "std::set", "AdlMIDI_UPtr"), extra_members={})
    info["OPNMIDIplay"] = mem2
    out.append(d2)
    # ---- generated typed equality (specification helpers: "nothing of this object changed")
    defs = {}
    for chunk in out:
        mm = re.match(r"typedef struct (\w+) \1;\nstruct \1 \{", chunk)
        if mm:
            defs[mm.group(1)] = chunk
    pl = "typedef struct X X;\nstruct X { size_t size_; size_t capacity_; void *cells_; void *first_; void *free_; void *endcell__prev_ghost; bool cells_allocd_; };"
    out.append("static bool spec_pl_list_NoteInfo_eq(const pl_list_NoteInfo *a, const pl_list_NoteInfo *b) { return a->size_ == b->size_ && a->capacity_ == b->capacity_ && a->cells_ == b->cells_ && a->first_ == b->first_ && a->free_ == b->free_ && a->endcell_.prev == b->endcell_.prev && a->endcell_.next == b->endcell_.next && a->cells_allocd_ == b->cells_allocd_; }")
    known = ["pl_list_NoteInfo"]
    for sname in ("OPN_Operator", "OpnTimbre", "Phys", "MIDIchannel"):
        out.append(X.eq_function(sname, defs[sname], known))
        known.append(sname)
    out.append("#endif")
    return "\n".join(out) + "\n", info


def _pl_list_fields(tl):
    body = X.class_body(tl, "pl_list", "pl_list.hpp")
    # private data members after the last 'private:' label
    priv = body[body.rindex("private:"):]
    fields = []
    for it in X.split_members(re.sub(r"private\s*:", "", priv)):
        s = it.strip().rstrip(";")
        if "(" in s:
            continue
        s = s.replace("std::size_t", "size_t").replace("pl_cell<T>", "pl_cell_##T").replace("pl_basic_cell<T>", "pl_basic_cell_##T")
        fields.append(s + ";")
    if len(fields) != 7:
        raise ExtractionError("pl_list private layout changed: %r" % fields)
    return " ".join(fields)


def _top_level_only(body, keep_data=False):
    return X.blank_nested(body)


def write_types(workdir):
    text, info = types_header()
    p = os.path.join(workdir, "verif_types.h")
    open(p, "w").write(text)
    return info
