"""Route B extraction of OPNMIDIplay / OPN2 member functions (and free C-API functions) into one generated C file.

emit(workdir, specs, out="extracted.c") writes <workdir>/verif_types.h and <workdir>/<out>.
Each spec: dict(file=<path under /repo>, name=<qualified name>, cls="OPNMIDIplay"|"OPN2"|None,
                params_re=None, which=None, rename=None, must=[rule names that have to fire], drop=[regex of statements
                removed by R9], static=True)
The generated text is the original signature and body with only the listed rule edits.
"""
import os, re
from . import cxx2c as X
from . import env
from .pipeline import REPO, ExtractionError

PLAY_VECTORS = ["m_midiChannels", "m_chipChannels"]
SYNTH_VECTORS = ["m_insCache", "m_regLFOSens", "m_channelCategory", "m_chips"]


def _locals_and_params(fn_text):
    names = set(re.findall(r"\b(?:u?int(?:8|16|32|64)_t|size_t|unsigned|int|bool|double|float|uint_fast32_t|char)\s+[\*&]?\s*(\w+)\s*(?:=|;|,|\)|\[)", fn_text))
    return names


def drop_if_blocks(body, patterns, protected, rules, fname):
    """R9: removes whole `if(<cond>) <statement-or-block>` statements whose condition matches one of `patterns`
    (debug-message bookkeeping on std::set / hooks).  Safe-drop condition, checked textually on every run: the removed
    text assigns none of the `protected` identifiers; otherwise ExtractionError (exit 2)."""
    for pat in patterns:
        n = 0
        pos = 0
        while True:
            m = re.compile(r"\bif\s*\(").search(body, pos)
            if not m:
                break
            lp = m.end() - 1
            rp = X.match_close(body, lp)
            cond = body[lp + 1:rp]
            if not re.search(pat, cond):
                pos = m.end(); continue
            k = rp + 1
            while body[k] in " \t\r\n":
                k += 1
            if body[k] == "{":
                end = X.match_close(body, k, "{", "}") + 1
            else:
                end = body.index(";", k) + 1
            # an `else` after the dropped statement would change meaning: refuse
            if re.match(r"\s*else\b", body[end:]):
                raise ExtractionError("R9: dropped if-statement in %s has an else branch" % fname)
            removed = body[m.start():end]
            bad = re.search(r"\b(%s)\b\s*(=(?!=)|\+=|-=|\|=|&=)" % "|".join(protected), removed) if protected else None
            if bad:
                raise ExtractionError("R9: statement to drop in %s assigns protected identifier %s" % (fname, bad.group(1)))
            body = body[:m.start()] + "/* R9 dropped: debug-message bookkeeping (%d chars, no protected identifier assigned) */" % len(removed) + body[end:]
            n += 1
            pos = m.start() + 10
        rules._count("R9:drop_if:" + pat[:40], n)
        if n == 0:
            raise ExtractionError("R9 drop_if pattern did not fire in %s: %s" % (fname, pat))
    return body


def convert(fn, cls, info, rules, drop=(), synth_obj="g_synth", extra_scopes=(), drop_if=(), protected=(), cut_at=None, epilogue="", cut_from=None):
    """Apply the rule list to one function; returns C text."""
    ref_macros = []
    body = fn.body
    if cut_from:
        ms = list(re.finditer(cut_from, body))
        if len(ms) != 1:
            raise ExtractionError("R12 start anchor %r matches %d times in %s" % (cut_from, len(ms), fn.name))
        body = "{\n    /* R12: statement range starts at the anchor; the locals live at entry are the parameters */\n" + body[ms[0].start():]
        rules._count("R12:cut_from", 1)
    if cut_at:
        ms = list(re.finditer(cut_at, body))
        if len(ms) != 1:
            raise ExtractionError("R12 anchor %r matches %d times in %s" % (cut_at, len(ms), fn.name))
        body = body[:ms[0].start()] + "\n    /* R12: statement range ends at the anchor; results handed to the harness */\n" + epilogue + "\n}"
        rules._count("R12:cut_at", 1)
    if drop_if:
        body = drop_if_blocks(body, drop_if, protected, rules, fn.name)
    # R9 drop-safe statements (each regex must match a whole statement and is recorded)
    for rx in drop:
        body, n = re.subn(rx, "/* R9 dropped */", body)
        rules._count("R9:" + rx[:40], n)
        if n == 0:
            raise ExtractionError("R9 pattern did not fire in %s: %s" % (fn.name, rx))
    text = body
    text = rules.r1_scope(text, ["OPNMIDIplay", "OPN2", "Synth", "MIDIchannel", "NoteInfo", "OpnChannel",
                                 "LocationData", "OpnInstMeta", "MidiEvent"] + list(extra_scopes))
    text = rules.r2_casts(text)
    text = rules.r5_containers(text, vectors=PLAY_VECTORS + SYNTH_VECTORS + ["synth.m_insCache", "synth.m_chips"], sptrs=["m_synth"])
    text, refs = rules.r3_ref_locals(text)
    locs = _locals_and_params(fn.params + " " + text) | set(refs)
    if cls == "OPNMIDIplay":
        text = rules.r10_members(text, info["OPNMIDIplay"], "g_play", locs)
    elif cls == "OPN2":
        text = rules.r10_members(text, info["OPN2"], synth_obj, locs)
    params = X.params_to_c(rules.r1_scope(rules.r2_casts(fn.params), ["OPNMIDIplay", "OPN2", "MIDIchannel", "NoteInfo", "OpnChannel"]), rules, ref_macros)
    name = fn.name.split("::")[-1]
    ret = re.sub(r"\b(OPNMIDIplay|OPN2|MIDIchannel|NoteInfo|OpnChannel)::", "", fn.ret)
    ret = ret.replace("OPNMIDI_EXPORT", "").replace("OPNMIDI_DECLSPEC", "").strip()
    # R3/R4: uses of a reference local / reference parameter become (*name__p).  Done by guarded textual substitution
    # (not by a macro): a member access `.name` / `->name` of the same spelling must stay untouched.
    macros = refs + ref_macros     # applied by emit() after the per-function post rules
    undefs = ""
    return name, ret, params, macros, text, undefs


def emit(workdir, specs, out="extracted.c", types=True, prelude_after=None):
    info = env.write_types(workdir) if types else {}
    rules_all = {}
    parts = ["/* GENERATED by vlib/extract_play.py from the current /repo tree: original text with rule edits only */"]
    finfo = []
    cache = {}
    for sp in specs:
        path = os.path.join(REPO, sp["file"])
        if path not in cache:
            cache[path] = open(path).read()
        if sp.get("kind") == "table":
            # verbatim copy of a file-scope constant: `static const T name[...] = {...};` or scalar
            ms = list(re.finditer(r"(?m)^(?:static\s+)?const\s+[\w:]+\s+%s\s*(\[[^\]]*\])*\s*=\s*" % re.escape(sp["name"]), cache[path]))
            if len(ms) != 1:
                raise ExtractionError("table %s: %d definitions" % (sp["name"], len(ms)))
            m = ms[0]
            end = cache[path].index(";", X.match_close(cache[path], cache[path].index("{", m.end() - 1), "{", "}") if cache[path][m.end():].lstrip().startswith("{") else m.end())
            txt = cache[path][m.start():end + 1]
            parts.append("/* ---- table %s (%s) verbatim ---- */\n%s" % (sp["name"], sp["file"], txt))
            finfo.append(dict(table=sp["name"], file=sp["file"], sha256_16=X.sha(txt)))
            continue
        if sp.get("kind") == "enum_anon":
            # verbatim copy of an anonymous enum that defines the given enumerator
            ms = [m for m in re.finditer(r"enum\s*\{[^}]*\}\s*;", cache[path]) if re.search(r"\b%s\b" % re.escape(sp["name"]), m.group(0))]
            if len(ms) != 1:
                raise ExtractionError("enum with %s: %d definitions" % (sp["name"], len(ms)))
            parts.append("/* ---- enum (%s) verbatim ---- */\n%s" % (sp["file"], ms[0].group(0)))
            continue
        if sp.get("kind") == "inline_method":
            # inline member function of a multi-instance class (R10 with an explicit self): defined inside the class body
            cb = X.class_body(X.strip_comments(cache[path]), re.escape(sp["class"]), sp["file"])
            fn = X.find_inline_method(cb, None, sp["name"], sp["file"], sp.get("params_re"))
            rules = X.Rules()
            body = fn.body
            body = rules.r1_scope(body, ["OPNMIDIplay", "OPN2", "Synth", "MIDIchannel", "NoteInfo", "OpnChannel"])
            body = rules.r2_casts(body)
            mem = info[sp["class"]]
            locs = _locals_and_params(fn.params + " " + body)
            pat = r"(?<![\w\.>])(?<!->)(%s)\b(?!\s*\()" % "|".join(re.escape(n) for n in sorted([m for m in mem if m not in locs], key=len, reverse=True))
            body, n = re.subn(pat, r"self->\1", body)
            rules._count("R10:self->", n)
            # calls of sibling methods on the same object:  m(...) -> Class_m(self, ...)
            for sib in sp.get("siblings", ()):
                body, k = re.subn(r"(?<![\w\.>])%s\s*\(\s*\)" % re.escape(sib), "%s_%s(self)" % (sp["class"], sib), body)
                rules._count("R10:sibling:" + sib, k)
            for pat2, rep in sp.get("post", ()):
                body, k = re.subn(pat2, rep, body)
                rules._count("POST:" + pat2[:40], k)
                if k == 0:
                    raise ExtractionError("post rule did not fire in %s: %s" % (fn.name, pat2))
            prm = X.params_to_c(fn.params, rules, [])
            prm = "%s *self" % sp["class"] + ("" if prm == "void" else ", " + prm)
            cname = "%s_%s" % (sp["class"], sp["name"])
            parts.append("/* ---- %s::%s (inline, %s) ---- */\n%s%s %s(%s)\n%s\n" % (sp["class"], sp["name"], sp["file"], "static " if sp.get("static", True) else "", fn.ret, cname, prm, body))
            fi = dict(function="%s::%s" % (sp["class"], sp["name"]), file=sp["file"], sha256_16=X.sha(fn.src), rules_fired={k: v for k, v in rules.fired.items() if v})
            finfo.append(fi)
            for k, v in rules.fired.items():
                rules_all[k] = rules_all.get(k, 0) + v
            continue
        fn = X.find_function(cache[path], sp["name"], sp["file"], sp.get("params_re"), sp.get("which"))
        rules = X.Rules()
        name, ret, params, macros, text, undefs = convert(fn, sp.get("cls"), info, rules, sp.get("drop", ()),
                                                          extra_scopes=sp.get("scopes", ()), drop_if=sp.get("drop_if", ()),
                                                          protected=sp.get("protected", ()), cut_at=sp.get("cut_at"), epilogue=sp.get("epilogue", ""), cut_from=sp.get("cut_from"))
        if sp.get("params_override"):
            params = sp["params_override"]
        for pat, rep in sp.get("post", ()):   # per-function syntactic edits, recorded like any other rule
            text, n = re.subn(pat, rep, text)
            rules._count("POST:" + pat[:40], n)
            if n == 0:
                raise ExtractionError("post rule did not fire in %s: %s" % (fn.name, pat))
        for pat, rep in sp.get("post_opt", ()):   # the same, for calls whose ABSENCE is a behaviour change to be judged by the contract, not an extraction break
            text, n = re.subn(pat, rep, text)
            rules._count("POST?:" + pat[:40], n)
        for r in list(macros) + list(sp.get("ref_params", ()) if sp.get("params_override") else []):
            text = re.sub(r"(?<![\w\.>])%s\b" % re.escape(r), "(*%s__p)" % r, text)
        macros = ""
        for must in sp.get("must", ()):
            if not any(k.startswith(must) and v > 0 for k, v in rules.fired.items()):
                raise ExtractionError("rule %s must fire in %s" % (must, fn.name))
        for pat, rep in sp.get("sig_post", ()):
            ret = re.sub(pat, rep, ret); params = re.sub(pat, rep, params)
        ret = re.sub(r"\binline\b", "", ret).strip()
        cname = sp.get("rename", name)
        parts.append("/* ---- %s  (%s:%d-%d) ---- */" % (fn.name, sp["file"], fn.line0, fn.line1))
        parts.append(macros + "%s%s %s(%s)\n%s\n%s" % ("static " if sp.get("static", False) else "", ret, cname, params, text, undefs))
        if prelude_after and cname in prelude_after:
            parts.append(prelude_after[cname])
        fi = fn.info(); fi["rules_fired"] = {k: v for k, v in rules.fired.items() if v}
        fi["generated_sha256_16"] = X.sha(text)
        finfo.append(fi)
        for k, v in rules.fired.items():
            rules_all[k] = rules_all.get(k, 0) + v
    open(os.path.join(workdir, out), "w").write("\n".join(parts) + "\n")
    return dict(functions=finfo, rules_fired={k: v for k, v in rules_all.items() if v})
