"""C14 / Nuked core: generated specification helpers, re-derived from the real ym3438.h on every run.
 * spec_chip_eq(a, b): field-wise equality of two ym3438_t objects over every member except the write queue
   (`writebuf`, compared at a ghost index by the harness) - generated from the struct text, never re-typed;
 * signature of OPN2_SetChipType (process-wide or per chip), so that the contract header matches the tree."""
import os, re, itertools
from .pipeline import REPO, ExtractionError, sha256_text
from . import cxx2c as X

H = "src/chips/nuked/ym3438.h"
C = "src/chips/nuked/ym3438.c"


def chip_struct_members():
    t = X.strip_comments(open(os.path.join(REPO, H)).read())
    m = re.search(r"typedef\s+struct\s*\{(.*?)\}\s*ym3438_t\s*;", t, re.S)
    if not m:
        raise ExtractionError("ym3438_t not found in " + H)
    mem = []
    for decl in m.group(1).split(";"):
        d = " ".join(decl.split())
        if not d:
            continue
        m0 = re.match(r"(\w+)\s+(.*)", d)
        if not m0:
            raise ExtractionError("ym3438_t member not understood: %r" % d)
        for one in m0.group(2).split(","):
            mm = re.fullmatch(r"\s*(\w+)((?:\s*\[\s*\w+\s*\])*)\s*", one)
            if not mm:
                raise ExtractionError("ym3438_t member not understood: %r" % d)
            dims = re.findall(r"\[\s*(\w+)\s*\]", mm.group(2))
            mem.append((m0.group(1), mm.group(1), dims))
    if len(mem) < 100:
        raise ExtractionError("ym3438_t: only %d members found" % len(mem))
    return mem, m.group(0)


def emit(wd, eq=False):
    mem, text = chip_struct_members()
    conj = []
    n_cmp = 0
    for ty, name, dims in mem:
        if name == "writebuf":
            if ty != "opn2_writebuf":
                raise ExtractionError("writebuf element type changed")
            continue
        if not re.fullmatch(r"Bit(8|16|32|64)[us]|Bitu|Bits", ty):
            raise ExtractionError("member %s has a non-scalar type %s: equality generator must be extended" % (name, ty))
        ns = []
        for d in dims:
            if not d.isdigit():
                raise ExtractionError("symbolic dimension %s of %s" % (d, name))
            ns.append(range(int(d)))
        for idx in itertools.product(*ns):
            sfx = "".join("[%d]" % i for i in idx)
            conj.append("a->%s%s == b->%s%s" % (name, sfx, name, sfx)); n_cmp += 1
    out = ["/* GENERATED on every run from %s - do not edit */" % H,
           ]
    if eq:
        out += ["static int spec_chip_eq(const ym3438_t *a, const ym3438_t *b) {", "  return " + "\n      && ".join(conj) + ";", "}",
                "static int spec_wb_eq(const opn2_writebuf *a, const opn2_writebuf *b) { return a->time == b->time && a->port == b->port && a->data == b->data; }"]
    hdr = open(os.path.join(REPO, H)).read()
    m = re.search(r"void\s+OPN2_SetChipType\s*\(([^)]*)\)\s*;", hdr)
    if not m:
        raise ExtractionError("OPN2_SetChipType declaration not found")
    per_chip = "ym3438_t" in m.group(1)
    out.append("#define NUKED_CHIPTYPE_%s 1" % ("PER_CHIP" if per_chip else "GLOBAL"))
    open(os.path.join(wd, "nuked_gen.h"), "w").write("\n".join(out) + "\n")
    return dict(route="A (in place): src/chips/nuked/ym3438.c is compiled unchanged; generated: only the signature switch for OPN2_SetChipType (%d scalar cells of ym3438_t parsed)" % n_cmp,
                struct_sha256=sha256_text(text), members=len(mem), set_chip_type="per-chip" if per_chip else "process-wide",
                source_sha256=sha256_text(open(os.path.join(REPO, C)).read()))
