"""Library-level replay: builds libOPNMIDI from the CURRENT /repo tree with ASan/UBSan in a scratch directory outside
/repo and /verif, and runs small drivers (replay/*.cpp) that call the public C API and observe internal state through the
real headers (compiled with -Dprivate=public in the driver TU only)."""
import os, subprocess, shutil, hashlib
from .pipeline import REPO, VERIF

_cache = {}


def build_lib(workroot):
    if workroot in _cache:
        return _cache[workroot]
    bd = os.path.join(workroot, "libbuild")
    os.makedirs(bd, exist_ok=True)
    flags = "-fsanitize=address,undefined -fno-omit-frame-pointer -g -O1"
    cfg = ["cmake", "-G", "Ninja", "-S", REPO, "-B", bd, "-DCMAKE_BUILD_TYPE=None", "-DWITH_UNIT_TESTS=OFF",
           "-DlibOPNMIDI_STATIC=ON", "-DlibOPNMIDI_SHARED=OFF", "-DCMAKE_C_FLAGS=" + flags, "-DCMAKE_CXX_FLAGS=" + flags]
    r = subprocess.run(cfg, capture_output=True, text=True)
    if r.returncode != 0:
        raise RuntimeError("cmake configure failed: " + r.stderr[-500:])
    r = subprocess.run(["cmake", "--build", bd, "--target", "OPNMIDI_static", "-j", "16"], capture_output=True, text=True)
    if r.returncode != 0:
        r = subprocess.run(["cmake", "--build", bd, "-j", "16"], capture_output=True, text=True)
        if r.returncode != 0:
            raise RuntimeError("library build failed: " + (r.stdout + r.stderr)[-800:])
    lib = None
    for root, _, files in os.walk(bd):
        for f in files:
            if f == "libOPNMIDI.a":
                lib = os.path.join(root, f)
    if not lib:
        raise RuntimeError("libOPNMIDI.a not produced")
    _cache[workroot] = (bd, lib)
    return bd, lib


def run_driver(workroot, driver_cpp, args, timeout=60, extra_inc=()):
    bd, lib = build_lib(workroot)
    exe = os.path.join(workroot, "drv_" + hashlib.md5(driver_cpp.encode()).hexdigest()[:8])
    if not os.path.exists(exe):
        cc = ["g++", "-std=c++11", "-fsanitize=address,undefined", "-g", "-O1", "-o", exe, os.path.join(VERIF, driver_cpp),
              "-I" + os.path.join(REPO, "include"), "-I" + os.path.join(REPO, "src"), "-I" + os.path.join(VERIF, "contracts")]
        cc += ["-I" + i for i in extra_inc] + [lib, "-lm", "-lpthread"]
        r = subprocess.run(cc, capture_output=True, text=True)
        if r.returncode != 0:
            raise RuntimeError("driver compile failed: " + r.stderr[-1500:])
    env = dict(os.environ, ASAN_OPTIONS="detect_leaks=0:abort_on_error=0", UBSAN_OPTIONS="print_stacktrace=1:halt_on_error=1")
    try:
        r = subprocess.run([exe] + [str(a) for a in args], capture_output=True, text=True, timeout=timeout, env=env)
        return dict(rc=r.returncode, stdout=r.stdout[-4000:], stderr=(r.stderr[:1800] + ("\n...\n" + r.stderr[-1200:] if len(r.stderr) > 3000 else r.stderr[1800:])), timed_out=False)
    except subprocess.TimeoutExpired:
        return dict(rc=None, stdout="", stderr="", timed_out=True)
