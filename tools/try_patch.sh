#!/bin/sh
# usage: tools/try_patch.sh <worktree> <patch.diff> <property> [check args...]
# applies the patch inside the given scratch worktree of /repo and runs the check against it (VERIF_REPO), then undoes it
wt=$1; patch=$2; prop=$3; shift 3
git -C "$wt" checkout -q -- . && git -C "$wt" apply "$patch" || { echo "patch does not apply"; exit 3; }
VERIF_REPO="$wt" /verif/check "$prop" --no-evidence "$@"; rc=$?
git -C "$wt" checkout -q -- .
echo "exit=$rc"
