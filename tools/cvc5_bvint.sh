#!/bin/sh
# SMT back end for pure-arithmetic lemma groups: cvc5 with bit-vectors translated to integers (non-linear integer
# reasoning proves monotonicity/distributivity facts of machine multiplication that bit-blasting cannot).
exec cvc5 --solve-bv-as-int=sum "$@"
