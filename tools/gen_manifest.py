#!/usr/bin/env python3
"""Regenerates /verif/MANIFEST.json from the MANIFEST dict of every vlib/props/C??.py and vlib/not_applicable.py."""
import json, os, sys, importlib, subprocess
HERE = os.path.dirname(os.path.dirname(os.path.abspath(__file__)))
sys.path.insert(0, HERE)
from vlib.not_applicable import NOT_APPLICABLE

ALL = ["C%02d" % i for i in range(1, 21)]
checks = []; na = []
for pid in ALL:
    path = os.path.join(HERE, "vlib", "props", pid + ".py")
    if os.path.exists(path) and pid not in NOT_APPLICABLE:
        m = importlib.import_module("vlib.props." + pid)
        M = m.MANIFEST
        checks.append(dict(property_id=pid, quick_cmd="./check %s --tier quick" % pid,
                           thorough_cmd="./check %s --tier thorough" % pid,
                           evidence_file="evidence/%s.json" % pid,
                           replay_cmd_template="./check %s --replay {path}" % pid,
                           engine="cbmc-contracts",
                           level_claimed=dict(category=M["category"], text=M["text"], design_ref=M["design_ref"]),
                           level_note=M["level_note"], technique=M["technique"]))
    else:
        na.append(dict(property_id=pid, reason=NOT_APPLICABLE[pid]))
try:
    commits = subprocess.check_output(["git", "-C", "/repo", "log", "--format=%h %s", "61571dd..HEAD"], text=True).strip().splitlines()
except Exception:
    commits = []
man = dict(
    version=1,
    setup_cmd="./setup.sh",
    hooks=dict(guard="LIBOPNMIDI_VERIF",
               enable="checks compile the repository sources with goto-cc -DLIBOPNMIDI_VERIF -I/verif/contracts (src/opnmidi_verif.h then includes the loop-contract text); nothing is linked into the shipped library",
               baseline_off_cmd="cmake -G Ninja -S /repo -B /repo/_build -DWITH_UNIT_TESTS=ON -DCMAKE_BUILD_TYPE=RelWithDebInfo >/dev/null && cmake --build /repo/_build && ctest --test-dir /repo/_build -j8 --timeout 900",
               source_commits=[c for c in commits if "verif hook" in c],
               add_only=True),
    engines=[dict(name="cbmc-contracts", path="check",
                  serves_properties=[c["property_id"] for c in checks],
                  kind_free_text="CBMC 6.11 code contracts (goto-cc, goto-instrument --dfcc --enforce-contract/--replace-call-with-contract/--apply-loop-contracts, cbmc) on the repository's C files in place and on C++ member functions extracted mechanically to C on every run")],
    checks=checks,
    not_applicable=na,
    notes="See DESIGN.md. Exit codes of ./check: 0 proved, 1 violation (VIOLATION line), 2 tool limit (never a violation). Fix commits in /repo: " + "; ".join(c for c in commits if " fix:" in " " + c),
)
json.dump(man, open(os.path.join(HERE, "MANIFEST.json"), "w"), indent=1)
print("MANIFEST.json: %d checks, %d not applicable" % (len(checks), len(na)))
