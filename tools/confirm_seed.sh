#!/bin/sh
# usage: tools/confirm_seed.sh <worktree> <patch.diff> <demo.(c|cpp)> <outlog>
# Confirms a seeded change in a scratch worktree: (1) builds + suite passes with the change, (2) demo fails with it,
# (3) demo passes without it.  Build directory <worktree>/_cb is removed at the end.
wt=$1; patch=$2; demo=$3; log=$4
{
set -x
git -C "$wt" checkout -q -- . && git -C "$wt" apply "$patch" || { echo "CONFIRM patch-does-not-apply"; exit 3; }
cmake -G Ninja -S "$wt" -B "$wt/_cb" -DWITH_UNIT_TESTS=ON -DCMAKE_BUILD_TYPE=RelWithDebInfo >/dev/null && cmake --build "$wt/_cb" >/dev/null 2>&1 || { echo "CONFIRM build-failed-with-change"; exit 3; }
ctest --test-dir "$wt/_cb" 2>&1 | grep "tests passed"; suite=$?
case "$demo" in
 *.c) cc="gcc -std=gnu99 -O1 -fsanitize=address -I$wt/src -I$wt/src/wopn -I$wt/include $demo $wt/src/wopn/wopn_file.c -o $wt/_cb/demo_bin" ; grep -q 'include.*wopn_file.c' "$demo" && cc="gcc -std=gnu99 -O1 -fsanitize=address -I$wt/src -I$wt/src/wopn -I$wt/include $demo -o $wt/_cb/demo_bin";;
 *) cc="g++ -std=gnu++11 -O1 -fsanitize=address -DENABLE_END_SILENCE_SKIPPING -DOPNMIDI_MIDI2VGM -DNDEBUG -I$wt/include -I$wt/src $demo $wt/_cb/libOPNMIDI.a -o $wt/_cb/demo_bin";;
esac
$cc || { echo "CONFIRM demo-compile-failed"; exit 3; }
"$wt/_cb/demo_bin" >/dev/null 2>&1; with=$?
git -C "$wt" checkout -q -- .
cmake --build "$wt/_cb" >/dev/null 2>&1 || { echo "CONFIRM build-failed-without-change"; exit 3; }
$cc || exit 3
"$wt/_cb/demo_bin" >/dev/null 2>&1; without=$?
rm -rf "$wt/_cb"
set +x
echo "CONFIRM suite_with_change=$suite demo_with_change_exit=$with demo_without_change_exit=$without"
} > "$log" 2>&1
tail -1 "$log"
