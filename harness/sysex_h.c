/* C19 harness: the four SysEx handlers, extracted on every run (extracted.c). */
#include "sysex_contracts.h"
static bool doUniversalSysEx(unsigned dev, bool realtime, const uint8_t *data, size_t size);
static bool doRolandSysEx(unsigned dev, const uint8_t *data, size_t size);
static bool doYamahaSysEx(unsigned dev, const uint8_t *data, size_t size);
#include "extracted.c"

uint8_t in_msg[64]; size_t in_size; uint8_t in_devid; MIDIchannel g_chan_before;
#if defined(SPEC_CH) || defined(NO_REACH)
#define REACH(cond, name)     /* vacuity goals live in the core group */
#else
#define REACH(cond, name) __CPROVER_assert(!(cond), "REACH " name)
#endif
uint8_t nondet_u8(void); size_t nondet_size(void); _Bool nondet_bool(void);

void h_realTime_SysEx(void)
{
    const uint8_t *msg; size_t size = nondet_size();
    for(int i = 0; i < 64; i++) in_msg[i] = nondet_u8();
    
    g_play.hooks.onDebugMessage = nondet_bool() ? env_debug_hook : NULL;   /* the two hook states of the environment */
    /* environment pointers are ASSIGNED here (and stated again as preconditions): CBMC resolves dereferences through
     * value sets, which an assumed equality on a nondeterministic pointer does not update */
    g_play.m_midiChannels = g_midiChannels_storage; g_play.m_synth = nondet_bool() ? &g_synth : NULL;
    in_size = size; in_devid = g_play.m_sysExDeviceId;   /* named for the replay file */
    bool r = realTime_SysEx(msg, size);
    REACH(r, "accepted"); REACH(!r, "rejected");
    REACH(r && in_msg[1] == 0x7E && in_msg[4] == 1, "gm on"); REACH(r && in_msg[1] == 0x7E && in_msg[4] == 2, "gm off");
    REACH(r && in_msg[1] == 0x7F, "master volume"); REACH(r && in_msg[1] == 0x41 && in_msg[5] == 0x40 && in_msg[6] == 0, "gs reset");
    REACH(r && in_msg[1] == 0x41 && in_msg[5] == 0 , "gs system mode");
    REACH(r && in_msg[1] == 0x41 && in_msg[7] == 0x15, "gs drum part"); REACH(r && in_msg[1] == 0x43, "xg on");
    REACH(!r && size == 64, "long rejected"); REACH(!r && in_msg[1] == 0x41 && size == 11 && in_msg[3] == 0x42 && in_msg[4] == 0x12 && in_msg[7] == 0x7F, "bad checksum rejected");
}
