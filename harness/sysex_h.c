/* C19 harness: the four SysEx handlers, extracted on every run (extracted.c). */
#include "sysex_contracts.h"
static bool doUniversalSysEx(unsigned dev, bool realtime, const uint8_t *data, size_t size);
static bool doRolandSysEx(unsigned dev, const uint8_t *data, size_t size);
static bool doYamahaSysEx(unsigned dev, const uint8_t *data, size_t size);
#include "extracted.c"

uint8_t in_msg[64]; MIDIchannel g_table_before[ENV_N_MIDI_CHANNELS];
#define REACH(cond, name) __CPROVER_assert(!(cond), "REACH " name)
uint8_t nondet_u8(void); size_t nondet_size(void); _Bool nondet_bool(void);

void h_realTime_SysEx(void)
{
    const uint8_t *msg; size_t size = nondet_size();
    for(int i = 0; i < 64; i++) in_msg[i] = nondet_u8();
    
    g_play.hooks.onDebugMessage = nondet_bool() ? env_debug_hook : NULL;   /* the two hook states of the environment */
    bool r = realTime_SysEx(msg, size);
    REACH(r, "accepted"); REACH(!r, "rejected");
    REACH(r && in_msg[1] == 0x7E && in_msg[4] == 1, "gm on"); REACH(r && in_msg[1] == 0x7E && in_msg[4] == 2, "gm off");
    REACH(r && in_msg[1] == 0x7F, "master volume"); REACH(r && in_msg[1] == 0x41 && in_msg[5] == 0x40 && in_msg[6] == 0, "gs reset");
    REACH(r && in_msg[1] == 0x41 && in_msg[5] == 0 , "gs system mode");
    REACH(r && in_msg[1] == 0x41 && in_msg[7] == 0x15, "gs drum part"); REACH(r && in_msg[1] == 0x43, "xg on");
    REACH(!r && size == 64, "long rejected"); REACH(!r && in_msg[1] == 0x41 && size == 11 && in_msg[3] == 0x42 && in_msg[4] == 0x12 && in_msg[7] == 0x7F, "bad checksum rejected");
}
