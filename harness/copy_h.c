/* C13 harness: one CopySamples instantiation (extracted on every run, template parameters substituted by rule R6). */
#include "copy_contracts.h"
#include "audio_contracts.h"
#include <stdlib.h>
size_t verif_mul(size_t a, unsigned s) { return a * s; }   /* R14: the outlined product of the loop body */
#ifndef COPY_MUL_LEMMA
#include "extracted.c"
#endif
#define REACH(cond, name) __CPROVER_assert(!(cond), "REACH " name)
int nondet_int(void); size_t nondet_size(void); unsigned nondet_unsigned(void); _Bool nondet_bool(void);
OPN2_UInt8 *g_bufL, *g_bufR; size_t g_szL, g_szR, g_offL, g_offR;
size_t g_g; COPY_DST g_expL, g_expR; size_t g_bL, g_bR; OPN2_UInt8 g_oldL, g_oldR; const int32_t *g_src;
size_t g_frames, g_qL, g_qR, g_last, g_P_g, g_P_qL, g_P_qR, g_P_last; unsigned g_stride; _Bool g_products_ok;
static int32_t src_frames[2 * COPY_MAX_FRAMES];
/* the transform handed to CopySamplesTransformed: an ARBITRARY deterministic function (uninterpreted), so the loop is proved
 * parametrically in its argument; the real converters are proved in the cvt_* groups and SendStereoAudio's choice of converter
 * in send_stereo_audio_contract.  (Integer-valued so that == is meaningful for the float/double instantiations.) */
int32_t __CPROVER_uninterpreted_transform(int32_t);
static COPY_RET any_transform(int32_t x) { return (COPY_RET)__CPROVER_uninterpreted_transform(x); }

#ifdef COPY_MUL_LEMMA
/* the contract of verif_mul on its body, for every argument and every ghost index */
void h_mul(void)
{
    size_t a = nondet_size(); unsigned s = nondet_unsigned();
    g_stride = s;
    SPEC_DEFINE_GHOSTS();   /* here the token has its definition: the ghost products are the products */
    size_t r = verif_mul(a, s);
    __CPROVER_assert(r == a * (size_t)s, "LEMMA the outlined function returns the product");
    __CPROVER_assert(SPEC_GHOST_BOUNDS, "LEMMA ghost products do not wrap around");
    REACH(r > 1000000, "large product"); REACH(g_g < 5 && g_qL > 500, "ghosts on both sides");
}
#else
#define SZMASK (((size_t)1 << COPY_SIZE_BITS) - 1)
void h_copy(void)
{
    size_t frames = nondet_size() & 1023; unsigned stride = nondet_unsigned(); size_t sz = sizeof(COPY_DST), span = (COPY_INTERLEAVED ? 2 : 1) * sz;
    __CPROVER_assume(frames <= COPY_MAX_FRAMES && stride >= span);
    g_frames = frames; g_stride = stride;
    g_g = nondet_size() & 511; g_qL = nondet_size() & 511; g_qR = nondet_size() & 511; g_last = frames ? frames - 1 : 0;
    /* HYPOTHESIS of this group (a ghost token, not evaluated here): g_P_* are the products g_* * stride.  It is the precondition
     * of verif_mul; copy_address_product_lemma proves verif_mul's contract and SPEC_GHOST_BOUNDS under its definition. */
    g_P_g = nondet_size() & (((size_t)1 << 41) - 1); g_P_qL = nondet_size() & (((size_t)1 << 41) - 1); g_P_qR = nondet_size() & (((size_t)1 << 41) - 1); g_P_last = nondet_size() & (((size_t)1 << 41) - 1);
    if(COPY_INTERLEAVED) g_qR = g_qL, g_P_qR = g_P_qL;
    g_products_ok = 1;
    __CPROVER_assume(SPEC_GHOST_BOUNDS);
    g_szL = (nondet_size() & SZMASK) + 1; g_offL = nondet_size() & SZMASK;
    __CPROVER_assume(g_offL <= g_szL);
    g_bufL = malloc(g_szL);
#if COPY_INTERLEAVED
    g_bufR = g_bufL; g_szR = g_szL; g_offR = g_offL + sz;
    __CPROVER_assume(g_offR <= g_szR);
#else
    g_szR = (nondet_size() & SZMASK) + 1; g_offR = nondet_size() & SZMASK;
    __CPROVER_assume(g_offR <= g_szR);
    g_bufR = malloc(g_szR);
#endif
    __CPROVER_assume(frames == 0 || (g_offL + g_P_last + sz <= g_szL && g_offR + g_P_last + sz <= g_szR));
    g_src = src_frames;
#if COPY_RAW
    g_expL = (COPY_DST)src_frames[2 * g_g]; g_expR = (COPY_DST)src_frames[2 * g_g + 1];
#else
    COPY_RET (*cvt)(int32_t) = any_transform;
    g_expL = (COPY_DST)cvt(src_frames[2 * g_g]); g_expR = (COPY_DST)cvt(src_frames[2 * g_g + 1]);
#endif
    /* a byte of each buffer outside every container */
    g_bL = nondet_size() & SZMASK; g_bR = COPY_INTERLEAVED ? g_bL : (nondet_size() & SZMASK);
    size_t offRspec = COPY_INTERLEAVED ? g_offL : g_offR;
    __CPROVER_assume(g_bL < g_szL && g_bR < g_szR);
    __CPROVER_assume(g_bL < g_offL || (g_qL < frames && g_bL >= g_offL + g_P_qL + span && g_bL < g_offL + g_P_qL + stride) || frames == 0 || g_bL >= g_offL + g_P_last + stride);
    __CPROVER_assume(g_bR < offRspec || (g_qR < frames && g_bR >= offRspec + g_P_qR + span && g_bR < offRspec + g_P_qR + stride) || frames == 0 || g_bR >= offRspec + g_P_last + stride);
    g_oldL = g_bufL[g_bL]; g_oldR = g_bufR[g_bR];
#if COPY_RAW
    COPY_FN(g_bufL + g_offL, g_bufR + g_offR, src_frames, frames, stride);
#else
    COPY_FN(g_bufL + g_offL, g_bufR + g_offR, src_frames, frames, stride, cvt);
#endif
    REACH(frames == 512 && g_g == 511, "last frame of a full period"); REACH(frames == 0, "nothing to copy");
    REACH(frames > 3 && g_bL > g_offL + stride && g_bL < g_offL + g_P_last, "guard byte in a gap");
    REACH(frames > 3 && g_bL < g_offL, "guard byte in front"); REACH(frames > 3 && g_bL >= g_offL + g_P_last + stride, "guard byte behind");
}
#endif
