/* Hand-written environment for OPNMIDIplay-level extracted functions.  SPECIFICATION, not code under proof.
 * Types come from the generated verif_types.h (extracted from the real headers on every run).
 * The single player object and the single synth object of the environment: */
#ifndef ENV_PLAY_H
#define ENV_PLAY_H
#include "verif_types.h"
#ifdef VERIF_CBMC
#include "opnmidi_verif_contracts.h"   /* loop contracts for the VERIF_LOOP markers that the extracted text carries */
#else
#define VERIF_LOOP(id)
#define VERIF_GHOST(decl)
#define VERIF_ENTRY(id)
#endif

OPNMIDIplay g_play;            /* stands for *this of OPNMIDIplay (R10 rewrites bare members to g_play.member) */

#define ADL_UNUSED(x) (void)x
#ifndef ENV_N_MIDI_CHANNELS
#define ENV_N_MIDI_CHANNELS 16   /* concrete size of the channel table in this run (real instances: 16 per MIDI port); groups are repeated for 32 */
#endif

/* ghost observation state */
unsigned g_reset_calls;        /* calls of realTime_ResetState() */
unsigned g_update_calls;       /* calls of noteUpdateAll() */
unsigned g_debug_calls;
size_t   g_k;                  /* ghost byte index */

/* the only debug hook the environment knows: writes nothing the library owns */
static void env_debug_hook(void *userdata, const char *fmt, ...) { (void)userdata; (void)fmt; }
static DebugMessageHook const env_debug_hook_anchor = env_debug_hook;   /* address taken: candidate for the indirect calls */

/* representation invariant pieces used as preconditions */
/* The channel table and the synth are typed static objects of the environment (CBMC treats is_fresh/malloc
 * objects as untyped byte arrays, which makes every field access a symbolic byte extraction - measured: minutes
 * and gigabytes instead of seconds).  DFCC starts every proof with all mutable statics nondeterministic, so their
 * contents are arbitrary; the preconditions only say that the player's pointers point at them. */
MIDIchannel g_midiChannels_storage[ENV_N_MIDI_CHANNELS];
struct OPN2 g_synth;
#define ENV_CHANNELS_OK (g_play.m_midiChannels_size == ENV_N_MIDI_CHANNELS && g_play.m_midiChannels == g_midiChannels_storage)
#define ENV_SYNTH_OK (g_play.m_synth == NULL || g_play.m_synth == &g_synth)
#define ENV_HOOKS_OK (g_play.hooks.onDebugMessage == NULL || g_play.hooks.onDebugMessage == env_debug_hook)

#endif
