/* C18 harness: C API setters extracted from src/opnmidi.cpp on every run. */
#include "api_contracts.h"
unsigned g_error_texts, g_partial_resets; struct OPN2_MIDIPlayer g_device; int g_locked;
static void setVolumeScaleModel(OPNMIDI_VolumeModels volumeModel);
static void setDeviceId(uint8_t id);
#include "extracted.c"
#define REACH(cond, name) __CPROVER_assert(!(cond), "REACH " name)
int nondet_int(void); unsigned nondet_unsigned(void); _Bool nondet_bool(void);
int in_arg; unsigned in_uarg; int in_null;
#define SETUP g_play.m_synth = &g_synth; in_arg = nondet_int(); in_uarg = nondet_unsigned(); in_null = nondet_bool(); struct OPN2_MIDIPlayer *dev = in_null ? NULL : &g_device;
void h_opn2_setNumChips(void) { SETUP int r = opn2_setNumChips(dev, in_arg); REACH(r == 0, "accepted"); REACH(r == -1 && in_arg == 0, "zero refused"); REACH(r == -1 && in_arg == 101, "101 refused"); REACH(r == -2, "null"); }
void h_opn2_switchEmulator(void) { SETUP int r = opn2_switchEmulator(dev, in_arg); REACH(r == 0, "accepted"); REACH(r == -1 && dev != NULL, "refused"); }
void h_opn2_setDeviceIdentifier(void) { SETUP int r = opn2_setDeviceIdentifier(dev, in_uarg); REACH(r == 0 && in_uarg == 15, "15 accepted"); REACH(r != 0 && in_uarg == 16, "16 refused"); }
void h_opn2_setVolumeRangeModel(void) { SETUP g_locked = nondet_bool(); opn2_setVolumeRangeModel(dev, in_arg); REACH(dev && !g_locked && in_arg == OPNMIDI_VolumeModel_AUTO && g_synth.m_insBankSetup.volumeModel == VOLUME_Generic, "auto with generic bank"); REACH(dev && in_arg == OPNMIDI_VolumeModel_9X, "9x"); REACH(dev && in_arg == 77, "unknown model"); }
