/* C18 harness: C API setters extracted from src/opnmidi.cpp on every run. */
#include "api_contracts.h"
unsigned g_error_texts, g_partial_resets, g_lfo_commits; apply_result g_apply; struct OPN2_MIDIPlayer g_device; int g_locked;
static void setVolumeScaleModel(OPNMIDI_VolumeModels volumeModel);
static OPNMIDI_VolumeModels getVolumeScaleModel(void);
static void setDeviceId(uint8_t id);
#include "extracted.c"
#define REACH(cond, name) __CPROVER_assert(!(cond), "REACH " name)
int nondet_int(void); unsigned nondet_unsigned(void); _Bool nondet_bool(void);
int in_arg; unsigned in_uarg; int in_null;
#define SETUP g_play.m_synth = &g_synth; in_arg = nondet_int(); in_uarg = nondet_unsigned(); in_null = nondet_bool(); struct OPN2_MIDIPlayer *dev = in_null ? NULL : &g_device;
void h_opn2_setNumChips(void) { SETUP int r = opn2_setNumChips(dev, in_arg); REACH(r == 0, "accepted"); REACH(r == -1 && in_arg == 0, "zero refused"); REACH(r == -1 && in_arg == 101, "101 refused"); REACH(r == -2, "null"); }
void h_opn2_switchEmulator(void) { SETUP int r = opn2_switchEmulator(dev, in_arg); REACH(r == 0, "accepted"); REACH(r == -1 && dev != NULL, "refused"); }
void h_opn2_setDeviceIdentifier(void) { SETUP int r = opn2_setDeviceIdentifier(dev, in_uarg); REACH(r == 0 && in_uarg == 15, "15 accepted"); REACH(r != 0 && in_uarg == 16, "16 refused"); }
void h_opn2_setVolumeRangeModel(void) { SETUP g_locked = nondet_bool(); opn2_setVolumeRangeModel(dev, in_arg); REACH(dev && !g_locked && in_arg == OPNMIDI_VolumeModel_AUTO && g_synth.m_insBankSetup.volumeModel == VOLUME_Generic, "auto with generic bank"); REACH(dev && in_arg == OPNMIDI_VolumeModel_9X, "9x"); REACH(dev && in_arg == 77, "unknown model"); }

/* ---- setter -> getter pairs (both real bodies): "a setter that reports success makes the matching getter return the
 *      value set, or the bank default for -1/auto" ---- */
#define PAIR_SETUP SETUP dev = &g_device; int before_errors = g_error_texts; (void)before_errors;
void h_pair_lfoEnabled(void) { PAIR_SETUP opn2_setLfoEnabled(dev, in_arg); int r = opn2_getLfoEnabled(dev);
    __CPROVER_assert(r == (in_arg < 0 ? (g_synth.m_insBankSetup.lfoEnable != 0) : (in_arg != 0)), "PAIR LFO enable: getter returns the value set, bank default for negative");
    __CPROVER_assert(g_play.m_setup.lfoEnable == in_arg, "PAIR LFO enable stored in the setup"); REACH(in_arg < 0 && r == 1, "bank default on"); }
void h_pair_lfoFrequency(void) { PAIR_SETUP opn2_setLfoFrequency(dev, in_arg); int r = opn2_getLfoFrequency(dev);
    __CPROVER_assert(r == (in_arg < 0 ? (uint8_t)g_synth.m_insBankSetup.lfoFrequency : (uint8_t)in_arg), "PAIR LFO frequency: getter returns the value set, bank default for negative");
    __CPROVER_assert(g_play.m_setup.lfoFrequency == in_arg, "PAIR LFO frequency stored in the setup"); REACH(in_arg == 7 && r == 7, "seven"); }
void h_pair_channelAlloc(void) { PAIR_SETUP opn2_setChannelAllocMode(dev, in_arg); int r = opn2_getChannelAllocMode(dev);
    __CPROVER_assert(r == ((in_arg < -1 || in_arg >= OPNMIDI_ChanAlloc_Count) ? OPNMIDI_ChanAlloc_AUTO : in_arg), "PAIR channel allocation mode: valid modes stick, anything else is AUTO"); REACH(r == 2, "mode 2"); }
void h_pair_autoArpeggio(void) { PAIR_SETUP opn2_setAutoArpeggio(dev, in_arg); int r = opn2_getAutoArpeggio(dev);
    __CPROVER_assert(r == (in_arg != 0), "PAIR auto arpeggio"); REACH(r == 1, "on"); }
void h_pair_flags(void) { PAIR_SETUP int b = nondet_int(), c = nondet_int();
    opn2_setScaleModulators(dev, in_arg); opn2_setSoftPanEnabled(dev, b); opn2_setFullRangeBrightness(dev, c);
    __CPROVER_assert(g_synth.m_scaleModulators == (in_arg != 0) && g_play.m_setup.ScaleModulators == in_arg, "PAIR scale modulators in force and stored");
    __CPROVER_assert(g_synth.m_softPanning == (b != 0), "PAIR soft panning in force");
    __CPROVER_assert(g_play.m_setup.fullRangeBrightnessCC74 == (c != 0), "PAIR full-range brightness stored"); REACH(in_arg && !b && c, "mixed"); }
void h_pair_volumeModel(void) { PAIR_SETUP g_locked = 0; __CPROVER_assume(g_synth.m_insBankSetup.volumeModel >= VOLUME_Generic && g_synth.m_insBankSetup.volumeModel <= VOLUME_9X);
    opn2_setVolumeRangeModel(dev, in_arg); int r = opn2_getVolumeRangeModel(dev);
    if(in_arg >= OPNMIDI_VolumeModel_Generic && in_arg <= OPNMIDI_VolumeModel_9X) __CPROVER_assert(r == in_arg, "PAIR volume model: getter returns the model set");
    if(in_arg == OPNMIDI_VolumeModel_AUTO) __CPROVER_assert(r == g_synth.m_insBankSetup.volumeModel + 1, "PAIR volume model AUTO: getter returns the loaded bank's model");
    REACH(in_arg == OPNMIDI_VolumeModel_AUTO && r == OPNMIDI_VolumeModel_DMX, "auto dmx"); }
void h_pair_numChips(void) { PAIR_SETUP int r = opn2_setNumChips(dev, in_arg); int g = opn2_getNumChips(dev);
    if(r == 0) __CPROVER_assert(g == in_arg, "PAIR chip count: getter returns the accepted value"); REACH(r == 0 && g == 100, "hundred"); }
void h_applySetup_prefix(void) { g_play.m_synth = &g_synth; g_apply.reached = false; applySetup_prefix(); REACH(g_play.m_setup.VolumeModel == OPNMIDI_VolumeModel_AUTO, "auto"); REACH(g_play.m_setup.chipType < 0 && g_apply.chipType == 1, "bank chip type"); REACH(g_play.m_setup.LogarithmicVolumes != 0, "log volumes"); }
