/* C10: native sweep of the extracted OPN2::noteOn text over a grid of tones (BOUNDED: every 1/64 semitone from 0 to the top
 * of the chip's native range, both clock families) - enumeration, not deduction; the unbounded part of C10 that IS
 * proved (termination for every double, register set, block range, write order) is the noteOn contract group.
 * Checks, per family:  |fnum * 2^(block+mul) - H(p)| <= 2^(block+mul)  with H(p) = 440 * 2^((p-69)/12) * 144 * 2^21 / clock
 * (within one F-number step of the equal-tempered frequency), and the encoded frequency is non-decreasing in p. */
#include <stdio.h>
#include <stdlib.h>
#include <math.h>
#include <assert.h>
#define __CPROVER_assert(c, m) assert(c)
#include "env_opn2.h"
static void writeRegI(size_t chip, uint8_t port, uint32_t index, uint32_t value);
static void writePan(size_t chip, uint32_t index, uint32_t value);
#include "extracted.c"
int main(void)
{
    const long double clocks[2] = { 7670454.0L, 7987200.0L };
    unsigned long long evals = 0;
    g_synth.m_numChips = 1; g_synth.m_numChannels = 6; g_synth.m_chips_size = 1;
    g_synth.m_insCache = g_insCache_storage; g_synth.m_insCache_size = 6; g_synth.m_regLFOSens = g_regLFOSens_storage; g_synth.m_regLFOSens_size = 6;
    for(int fam = 0; fam < 2; fam++)
    {
        g_synth.m_chipFamily = fam;
        long double prev = -1.0L;
        for(int k = 0; k <= 64 * 116; k++)       /* 116 semitones ~ 6.6 kHz: top of the native (multiplier-free) range */
        {
            double p = k / 64.0;
            for(int op = 0; op < 4; op++) g_insCache_storage[0].OPS[op].data[0] = 0x01;   /* DT 0, MUL 1 */
            g_tap_n = 0; noteOn(0, p); evals++;
            if(g_tap_n != 7) { printf("SWEEP VIOLATION family=%d p=%.6f: note not keyed (%u writes)\n", fam, p, g_tap_n); return 1; }
            unsigned a4 = g_tap[4].val, a0 = g_tap[5].val, block = (a4 >> 3) & 7, fnum = ((a4 & 7) << 8) | a0, mul = g_tap[0].val & 0x0F;
            long double H = 440.0L * powl(2.0L, ((long double)p - 69.0L) / 12.0L) * 144.0L * 2097152.0L / clocks[fam];
            long double step = ldexpl(1.0L, (int)block) * (long double)mul, got = (long double)fnum * step;   /* MUL 1 = x1 */
            if(fabsl(got - H) > step) { printf("SWEEP VIOLATION family=%d p=%.6f: block=%u fnum=%u mul=%u encodes %.3Lf, ideal %.3Lf (more than one F-number step)\n", fam, p, block, fnum, mul, got, H); return 1; }
            if(got < prev) { printf("SWEEP VIOLATION family=%d p=%.6f: programmed frequency falls when p rises (%.3Lf after %.3Lf)\n", fam, p, got, prev); return 1; }
            prev = got;
        }
    }
    printf("SWEEP ok evaluations=%llu\n", evals);
    return 0;
}
