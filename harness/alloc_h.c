/* C06 harness: chip-channel choice for a new note, extracted on every run. */
#include "alloc_contracts.h"
unsigned g_other_calls; pl_cell_NoteInfo g_note_cell; const OpnInstMeta g_cell_instrument; MIDIchannel g_chan_win[1]; MIDIchannel g_chan_before;
uint8_t g_class[ENV_MAX_CH_ALLOC]; size_t g_sel_w; sel_result g_sel; bool g_prep_continued;
OpnChannel g_chipchan_win[1]; pl_cell_LocationData g_ucell[3]; unsigned g_nusers; Phys g_new_ins;
#include "extracted.c"
#define REACH(cond, name) __CPROVER_assert(!(cond), "REACH " name)
size_t nondet_size(void); unsigned nondet_unsigned(void);
void h_goodness(void)
{
    size_t c = nondet_size(); __CPROVER_assume(c < 600);
    g_play.m_synth = &g_synth; g_play.m_chipChannels = g_chipchan_win - c; g_play.m_midiChannels = g_midiChannels_storage; g_play.m_midiChannels_size = ENV_N_MIDI_CHANNELS;
    /* canonical list shape, size symbolic */
#ifdef NUSERS
    g_nusers = NUSERS;     /* one group per list length (the 64-bit divisions by 1000 make the joint query too slow) */
#else
    g_nusers = nondet_unsigned(); __CPROVER_assume(g_nusers <= 3);
#endif
    pl_list_LocationData *l = &g_chipchan_win[0].users;
    l->size_ = g_nusers; l->endcell_.next = NULL; l->first_ = g_nusers > 0 ? &g_ucell[0] : SPEC_ENDCELL;
    for(unsigned q = 0; q < 3; q++) g_ucell[q].next = (q + 1 < g_nusers ? &g_ucell[q + 1] : SPEC_ENDCELL);
    int64_t s = calculateChipChannelGoodness(c, &g_new_ins);
    REACH(g_nusers == 0 && s == 0, "idle, fully released"); REACH(g_nusers == 0 && s < -40000, "idle, still releasing");
    REACH(g_nusers == 1 && !SPEC_HELD(0), "single pedal-held"); REACH(g_nusers == 3 && SPEC_HELD(1), "three users, middle held");
    REACH(g_nusers == 2 && s > -500000, "two pedal-held users, young");
}

int nondet_int(void);
/* the selection range with the goodness function replaced by its contract (re-indexed by channel class) */
void h_select(void)
{
    static Phys voices[2]; int32_t adlchannel[2]; uint32_t ccount = nondet_unsigned();
    __CPROVER_assume(ccount < 2 && g_synth.m_numChannels <= ENV_MAX_CH_ALLOC);
    adlchannel[0] = nondet_int(); adlchannel[1] = nondet_int();
    __CPROVER_assume(adlchannel[0] >= -1 && adlchannel[0] < (int32_t)g_synth.m_numChannels);
    g_sel_w = nondet_size();
    realTime_NoteOn_select(&g_synth, ccount, adlchannel, voices);
    int32_t c = g_sel.c;
    __CPROVER_assert(c >= -1 && c < (int32_t)g_synth.m_numChannels && (c < 0 || !SEL_SKIP(c)), "SELECT the chosen channel exists and is not the primary channel of the same note");
    if(g_sel_w < g_synth.m_numChannels && !SEL_SKIP(g_sel_w))
    {
        __CPROVER_assert(c >= 0, "SELECT a note is placed whenever a channel can be scanned");
        if(g_class[g_sel_w] == CL_IDLE)
            __CPROVER_assert(g_class[c] == CL_IDLE, "SELECT while some channel has no user, the note goes to a channel without users");
        if(g_class[g_sel_w] == CL_PEDAL1)
            __CPROVER_assert(g_class[c] != CL_HELD, "SELECT a channel holding a single released-but-pedal-held note is taken before any channel whose key is still down");
    }
    REACH(c >= 0 && g_class[c] == CL_HELD, "all keys down: a held channel is stolen"); REACH(c == -1, "nothing to scan"); REACH(ccount == 1 && c >= 0 && g_class[c] == CL_IDLE, "second voice on an idle channel");
}
void h_prepare_first(void)
{
    size_t c = nondet_size(); __CPROVER_assume(c < 600);
    g_play.m_chipChannels = g_chipchan_win - c; g_prep_continued = false;
    prepareChipChannelForNewNote_first(c, &g_new_ins);
    REACH(!g_prep_continued, "no users: untouched"); REACH(g_prep_continued, "has users");
}
