/* C10, BOUNDED native check (enumeration, not deduction): the extracted Upd_Pitch range of OPNMIDIplay::noteUpdate is executed
 * on a grid and the tone it hands to noteOn is compared, bit for bit, with
 *     key tone + (bend * bend range + note offset [+ vibrato * depth * sin(position)]) + second-voice fine tune.        */
#include <stdio.h>
#include <math.h>
#define __CPROVER_requires(...)
#define __CPROVER_ensures(...)
#define __CPROVER_assigns(...)
#define PITCH_CH 0
#include "pitch_contracts.h"
MIDIchannel g_pitch_chan[16]; LocationData g_user; bool g_has_user;
unsigned g_noteon_calls, g_hook_calls, g_sin_calls; size_t g_noteon_c; double g_noteon_tone, g_sin_arg, g_sin_ret, g_hook_bend; int g_hook_chan, g_hook_note;
LocationData *find_user_c(uint16_t c) { return g_has_user ? &g_user : NULL; }
void hook_record(void *ud, int chan, int note, int ins, int vol, double bend) { g_hook_calls++; }
void noteOn_record(size_t c, double tone) { g_noteon_calls++; g_noteon_c = c; g_noteon_tone = tone; }
#define sin(x) sin_record(x)
static double sin_record(double x) { g_sin_calls++; g_sin_arg = x; g_sin_ret = (sin)(x); return g_sin_ret; }
#include "extracted.c"

int main(void)
{
    static const int bends[] = {-8192, -4096, -1, 0, 1, 2048, 8191};
    static const double senses[] = {0.0, 2.0 / 8192.0, 12.0 / 8192.0, 24.0 / 8192.0, 0.37 / 8192.0};
    static const int offs[] = {-12, 0, 7, 1};
    static const double tones[] = {0.0, 36.0, 60.0, 69.5, 127.0, 60.000001};
    static const int vibs[] = {0, 1, 64, 127};
    static const double fines[] = {0.0, 0.1, -0.25};
    unsigned long n = 0;
    for(unsigned ib = 0; ib < 7; ib++) for(unsigned is = 0; is < 5; is++) for(unsigned io = 0; io < 4; io++) for(unsigned it = 0; it < 6; it++)
    for(unsigned iv = 0; iv < 4; iv++) for(unsigned fi = 0; fi < 3; fi++) for(unsigned flag = 0; flag < 2; flag++) for(unsigned same = 0; same < 2; same++)
    for(unsigned user = 0; user < 3; user++) for(unsigned where = 0; where < 3; where++)
    {
        MIDIchannel *ch = &g_pitch_chan[0]; Phys ins; OpnInstMeta ains; NoteInfo info; MIDIEventHooks hooks;
        memset(&ins, 0, sizeof ins); memset(&ains, 0, sizeof ains); memset(&info, 0, sizeof info); memset(&hooks, 0, sizeof hooks); memset(&g_user, 0, sizeof g_user);
        ch->bend = bends[ib]; ch->bendsense = senses[is]; ch->vibdepth = 0.5 / 127.0; ch->vibpos = 0.3 * (ib + 1); ch->vibdelay_us = 1000;
        ch->vibrato = where == 0 ? vibs[iv] : 0; ch->aftertouch = where == 1 ? vibs[iv] : 0; info.vibrato = where == 2 ? vibs[iv] : 0;
        ins.ains.noteOffset = (int16_t)offs[io]; ins.ains.fbalg = 5; ains.voice2_fine_tune = fines[fi]; ains.flags = flag ? Flag_Pseudo8op : 0;
        ains.op[1] = ins.ains; if(!same) ains.op[1].fbalg = 6;
        g_has_user = user != 0; g_user.sustained = 0; g_user.vibdelay_us = user == 1 ? 500 : 2000;   /* user 1: vibrato still delayed */
        g_noteon_calls = g_sin_calls = 0;
        noteUpdate_pitch(0, 3, Upd_Pitch, g_pitch_chan, &ins, &ains, &info, tones[it], 60, 0, 100, &hooks);
        int vib_on = vibs[iv] != 0 && (!g_has_user || g_user.vibdelay_us >= ch->vibdelay_us);
        double bend = (double)bends[ib] * senses[is] + (double)offs[io];
        if(vib_on) bend += (double)vibs[iv] * ch->vibdepth * (sin)(ch->vibpos);
        double want = tones[it] + bend + ((flag && same) ? fines[fi] : 0.0);
        n++;
        if(g_noteon_calls != 1 || g_noteon_c != 3 || g_noteon_tone != want || (int)g_sin_calls != vib_on)
        { printf("SWEEP VIOLATION bend=%d sense=%g offset=%d tone=%g vibrato=%d(%u) fine=%g flag=%u same=%u user=%u: noteOn calls=%u tone=%.17g expected %.17g\n", bends[ib], senses[is], offs[io], tones[it], vibs[iv], where, fines[fi], flag, same, user, g_noteon_calls, g_noteon_tone, want); return 1; }
    }
    printf("SWEEP ok evaluations=%lu\n", n);
    return 0;
}
