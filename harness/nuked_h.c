/* C14 harness (Route A): the Nuked OPN2 core is the repository file itself, compiled unchanged. */
#include "nuked_contracts.h"
#include "chips/nuked/ym3438.c"   /* current working tree (-I$REPO/src) */

#define REACH(cond, name) __CPROVER_assert(!(cond), "REACH " name)
Bit32u nondet_u32(void);
Bit8u nondet_u8(void);

void h_OPN2_Clock(void) { ym3438_t *c; Bit16s *b; OPN2_Clock(c, b); REACH(1, "the call returns (precondition satisfiable)"); }
void h_OPN2_Write(void) { ym3438_t *c; OPN2_Write(c, nondet_u32(), nondet_u8()); REACH(1, "the call returns (precondition satisfiable)"); }
void h_OPN2_WritePan(void) { ym3438_t *c; OPN2_WritePan(c, nondet_u32(), nondet_u8()); REACH(1, "the call returns (precondition satisfiable)"); }
#ifdef NUKED_TYPED_ENV
ym3438_t g_nuked_chip;
#define ENVCHIP = &g_nuked_chip
#else
#define ENVCHIP
#endif
void h_OPN2_WriteBuffered(void) { ym3438_t *c ENVCHIP; OPN2_WriteBuffered(c, nondet_u32(), nondet_u8()); REACH(1, "the call returns (precondition satisfiable)"); if(0) { OPN2_Clock(c, 0); OPN2_Write(c, 0, 0); } }
void h_OPN2_Generate(void) { ym3438_t *c ENVCHIP; Bit16s *b; OPN2_Generate(c, b); REACH(1, "the call returns (precondition satisfiable)"); if(0) { OPN2_Clock(c, 0); OPN2_Write(c, 0, 0); } }
void h_OPN2_Reset(void) { ym3438_t *c; OPN2_Reset(c, nondet_u32(), nondet_u32()); REACH(1, "the call returns (precondition satisfiable)"); }
void h_OPN2_SetMute(void) { ym3438_t *c; OPN2_SetMute(c, nondet_u32()); REACH(1, "the call returns (precondition satisfiable)"); }
void h_OPN2_Read(void) { ym3438_t *c; (void)OPN2_Read(c, nondet_u32()); REACH(1, "the call returns (precondition satisfiable)"); }
void h_OPN2_SetTestPin(void) { ym3438_t *c; OPN2_SetTestPin(c, nondet_u32()); REACH(1, "the call returns (precondition satisfiable)"); }
void h_OPN2_ReadTestPin(void) { ym3438_t *c; (void)OPN2_ReadTestPin(c); REACH(1, "the call returns (precondition satisfiable)"); }
void h_OPN2_ReadIRQPin(void) { ym3438_t *c; (void)OPN2_ReadIRQPin(c); REACH(1, "the call returns (precondition satisfiable)"); }
#ifdef NUKED_CHIPTYPE_PER_CHIP
void h_OPN2_SetChipType(void) { ym3438_t *c; Bit32u t = nondet_u32(); OPN2_SetChipType(c, t); REACH(1, "the call returns (precondition satisfiable)"); }
#else
void h_OPN2_SetChipType(void) { Bit32u t = nondet_u32(); OPN2_SetChipType(t); REACH(1, "the call returns (precondition satisfiable)"); }
#endif
