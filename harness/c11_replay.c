/* Level-1 replay for C11: executes the extracted real OPN2::touchNote text natively on a counterexample's values and
 * evaluates the same postcondition predicates as the contract.  argv: c v cv ce br mv model scale nchips alg l0 l1 l2 l3 */
#include <stdio.h>
#include <stdlib.h>
#include <assert.h>
#define __CPROVER_assert(c, m) do { if(!(c)) { printf("REPLAY-VIOLATION %s\n", m); exit(1); } } while(0)
#include "env_opn2.h"
#include "opn2_spec.h"
static void writeRegI(size_t chip, uint8_t port, uint32_t index, uint32_t value);
static void writePan(size_t chip, uint32_t index, uint32_t value);
#include "extracted.c"
uint8_t in_op_level[4]; uint8_t in_alg;
int main(int argc, char **argv)
{
    if(argc < 15) return 2;
    size_t c = strtoul(argv[1], 0, 10); unsigned long v = strtoul(argv[2], 0, 10), cv = strtoul(argv[3], 0, 10), ce = strtoul(argv[4], 0, 10);
    uint8_t br = (uint8_t)atoi(argv[5]);
    g_synth.m_masterVolume = (uint8_t)atoi(argv[6]); g_synth.m_volumeScale = atoi(argv[7]); g_synth.m_scaleModulators = atoi(argv[8]);
    g_synth.m_numChips = (unsigned)atoi(argv[9]); g_synth.m_numChannels = 6 * g_synth.m_numChips; g_synth.m_chips_size = g_synth.m_numChips;
    g_synth.m_insCache = g_insCache_storage; g_synth.m_insCache_size = g_synth.m_numChannels;
    g_synth.m_regLFOSens = g_regLFOSens_storage; g_synth.m_regLFOSens_size = g_synth.m_numChannels;
    in_alg = (uint8_t)atoi(argv[10]);
    if(c >= ENV_MAX_CH) return 2;
    g_insCache_storage[c].fbalg = in_alg;
    for(int k = 0; k < 4; k++) { in_op_level[k] = (uint8_t)atoi(argv[11 + k]); g_insCache_storage[c].OPS[k].data[1] = in_op_level[k]; }
    g_tap_n = 0;
    touchNote(c, v, cv, ce, br);
    printf("writes=%u TL=%u,%u,%u,%u addr=%u,%u,%u,%u\n", g_tap_n, g_tap[0].val, g_tap[1].val, g_tap[2].val, g_tap[3].val, g_tap[0].addr, g_tap[1].addr, g_tap[2].addr, g_tap[3].addr);
    int bad = 0;
    if(!SPEC_TOUCHNOTE_POST_RANGE(c)) { printf("REPLAY-VIOLATION TL writes not exactly the four level registers in 0..127\n"); bad = 1; }
    if(!SPEC_TOUCHNOTE_POST_SILENT(cv, ce)) { printf("REPLAY-VIOLATION zero volume/expression/master volume does not silence a carrier\n"); bad = 1; }
    if(!SPEC_TOUCHNOTE_POST_MODS(br)) { printf("REPLAY-VIOLATION modulator level changed without scaling/brightness\n"); bad = 1; }
    return bad;
}
