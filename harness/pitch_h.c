/* C10 harness: the Upd_Pitch range of OPNMIDIplay::noteUpdate (extracted on every run, rule R12). */
#include "pitch_contracts.h"
#include <stdlib.h>
#define REACH(cond, name) __CPROVER_assert(!(cond), "REACH " name)
MIDIchannel g_pitch_chan[16]; LocationData g_user; bool g_has_user;
unsigned g_noteon_calls, g_hook_calls, g_sin_calls; size_t g_noteon_c; double g_noteon_tone, g_sin_arg, g_sin_ret, g_hook_bend; int g_hook_chan, g_hook_note;
_Bool nondet_bool(void); unsigned nondet_unsigned(void); size_t nondet_size(void); double nondet_double(void); short nondet_short(void); unsigned char nondet_u8(void);
LocationData *find_user_c(uint16_t c) { return g_has_user ? &g_user : NULL; }
void noteOn_record(size_t c, double tone) { g_noteon_calls++; g_noteon_c = c; g_noteon_tone = tone; }
double sin(double x) { g_sin_calls++; g_sin_arg = x; g_sin_ret = nondet_double(); __CPROVER_assume(g_sin_ret >= -1.0 && g_sin_ret <= 1.0); return g_sin_ret; }
void hook_record(void *ud, int chan, int note, int ins, int vol, double bend) { g_hook_calls++; g_hook_chan = chan; g_hook_note = note; g_hook_bend = bend; }
#include "extracted.c"

void h_noteUpdate_pitch(void)
{
    size_t midCh = PITCH_CH;
    static Phys ins; static OpnInstMeta ains; static NoteInfo info; static MIDIEventHooks hooks;
    g_has_user = nondet_bool();
    __CPROVER_assert(Upd_Pitch == PITCH_UPD, "the contract's mask constant is the extracted Upd_Pitch");
    __CPROVER_assert(Sustain_None == 0, "the contract's Sustain_None is the extracted enumerator");
    __CPROVER_assert(OpnInstMeta_Flag_Pseudo8op_VALUE == Flag_Pseudo8op, "the contract's flag constant is the extracted enumerator");
    unsigned mask = nondet_unsigned(); uint16_t c = (uint16_t)(nondet_unsigned() & 0xFFFF);
    hooks.onNote = NULL;
    noteUpdate_pitch(midCh, c, mask, g_pitch_chan, &ins, &ains, &info, nondet_double(), nondet_short(), nondet_size(), nondet_u8(), &hooks);
    REACH(g_noteon_calls == 1 && g_sin_calls == 1 && g_has_user, "vibrato on a note with a user entry"); REACH(g_noteon_calls == 0 && (mask & PITCH_UPD), "pedal-held note is not bent");
    REACH(g_noteon_calls == 1 && g_noteon_tone > 70.5 && g_noteon_tone < 70.6 && g_pitch_chan[midCh].bend == 4096, "bent note");
}
