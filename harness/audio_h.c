/* C13 harness: conversion helpers, CopySamples* instances and SendStereoAudio, extracted on every run. */
#include "audio_contracts.h"
#include <stdlib.h>
#include "extracted.c"
#define REACH(cond, name) __CPROVER_assert(!(cond), "REACH " name)
int nondet_int(void); size_t nondet_size(void); unsigned nondet_unsigned(void); long nondet_long(void);
size_t g_exp_frames; OPN2_UInt8 *g_exp_left, *g_exp_right; const int32_t *g_exp_src; unsigned g_exp_stride;
int g_copy_calls; unsigned g_copy_dst_size; int g_copy_raw; int32_t (*g_copy_cvt)(int32_t);

#define H_CVT(name, T) void h_##name(void) { int32_t x = nondet_int(); T r = name(x); REACH(x > 40000, "saturating high"); REACH(x < -40000, "saturating low"); REACH(x == -1, "minus one"); }
H_CVT(opn2_cvtS16, int32_t) H_CVT(opn2_cvtU16, int32_t) H_CVT(opn2_cvtS8, int32_t) H_CVT(opn2_cvtU8, int32_t) H_CVT(opn2_cvtS24, int32_t)
H_CVT(opn2_cvtU24, int32_t) H_CVT(opn2_cvtS32, int32_t) H_CVT(opn2_cvtU32, int32_t) H_CVT(opn2_cvtReal_float, float) H_CVT(opn2_cvtReal_double, double)

#ifdef WITH_SEND
/* which (type, container) pairs the statement and include/opnmidi.h document as supported */
static int spec_supported(int type, unsigned cs)
{
    switch(type)
    {
    case OPNMIDI_SampleType_S8: case OPNMIDI_SampleType_U8: return cs == 1 || cs == 2 || cs == 4;
    case OPNMIDI_SampleType_S16: case OPNMIDI_SampleType_U16: return cs == 2 || cs == 4;
    case OPNMIDI_SampleType_S24: case OPNMIDI_SampleType_U24: case OPNMIDI_SampleType_S32: case OPNMIDI_SampleType_U32: return cs == 4;
    case OPNMIDI_SampleType_F32: return cs == 4;
    case OPNMIDI_SampleType_F64: return cs == 8;
    default: return 0;
    }
}
void h_SendStereoAudio(void)
{
    int requested = nondet_int(); ssize_t in_size = nondet_long(), out_pos = nondet_long();
    static int32_t in_buf[1024];
    OPNMIDI_AudioFormat fmt; fmt.type = nondet_int(); fmt.containerSize = nondet_unsigned(); fmt.sampleOffset = nondet_unsigned();
    /* caller's side of the contract (opn2_generateFormat): even non-negative request, position inside it, at most 512 frames */
    __CPROVER_assume(requested >= 0 && requested % 2 == 0 && out_pos >= 0 && out_pos % 2 == 0 && out_pos <= requested && in_size >= 0 && in_size <= 512);
    __CPROVER_assume(fmt.sampleOffset <= 64);
    /* the caller's buffers are only compared by address here (the copy routines are contracts); the range of the
     * pointer arithmetic is the caller's obligation "correctly sized buffers" and is not checked in this group */
    static OPN2_UInt8 left[64], right[64];
    size_t can = (size_t)(requested - out_pos), have = (size_t)in_size * 2;
    g_exp_frames = (can < have ? can : have) / 2;
    g_exp_left = left + ((size_t)out_pos / 2) * fmt.sampleOffset; g_exp_right = right + ((size_t)out_pos / 2) * fmt.sampleOffset;
    g_exp_src = in_buf; g_exp_stride = fmt.sampleOffset; g_copy_calls = 0;
    int r = SendStereoAudio(requested, in_size, in_buf, out_pos, left, right, &fmt);
    if(in_size == 0)
        __CPROVER_assert(r == 0 && g_copy_calls == 0, "SEND nothing to send: 0, nothing stored");
    else
    {
        __CPROVER_assert((r == 0) == (spec_supported(fmt.type, fmt.containerSize) != 0) && (r == 0 || r == -1), "SEND unsupported sample type/container pairs are refused with -1, supported ones return 0");
        __CPROVER_assert(r != 0 || (g_copy_calls == 1 && g_copy_dst_size == fmt.containerSize), "SEND exactly one copy, into containers of the requested size");
        __CPROVER_assert(r == 0 || g_copy_calls == 0, "SEND a refused request stores nothing");
#ifdef KF_C13_S16_IN_32
        /* witness class of known finding KF-C13-1 excluded: 16-bit sample types in a 4-byte container */
        __CPROVER_assume(!((fmt.type == OPNMIDI_SampleType_S16 || fmt.type == OPNMIDI_SampleType_U16) && fmt.containerSize == 4));
#endif
        if(r == 0)
        {
            int32_t (*want)(int32_t) =
                fmt.type == OPNMIDI_SampleType_S8 ? opn2_cvtS8 : fmt.type == OPNMIDI_SampleType_U8 ? opn2_cvtU8 :
                fmt.type == OPNMIDI_SampleType_S16 ? opn2_cvtS16 : fmt.type == OPNMIDI_SampleType_U16 ? opn2_cvtU16 :
                fmt.type == OPNMIDI_SampleType_S24 ? opn2_cvtS24 : fmt.type == OPNMIDI_SampleType_U24 ? opn2_cvtU24 :
                fmt.type == OPNMIDI_SampleType_S32 ? opn2_cvtS32 : fmt.type == OPNMIDI_SampleType_U32 ? opn2_cvtU32 :
                fmt.type == OPNMIDI_SampleType_F32 ? (int32_t (*)(int32_t))opn2_cvtReal_float : (int32_t (*)(int32_t))opn2_cvtReal_double;
            __CPROVER_assert(!g_copy_raw && g_copy_cvt == want, "SEND every supported pair is stored through the documented conversion of its sample type");
        }
    }
    REACH(r == -1, "refused"); REACH(r == 0 && g_copy_calls == 1 && g_exp_frames == 512, "full buffer"); REACH(r == 0 && fmt.type == OPNMIDI_SampleType_F64, "f64");
    REACH(r == 0 && g_exp_frames == 3 && out_pos == 4, "tail of a request");
}
#endif

#if defined(WITH_GENERATE) || defined(WITH_PLAY)
unsigned g_gen_calls, g_send_calls, g_tick_calls; ssize_t g_sent_frames; struct OPN2_MIDIPlayer g_device; int g_send_fails;
_Bool nondet_bool(void);
/* TRUSTED model of memset for this group: the only memset of the function clears a prefix of the mix buffer; the model checks
 * that the cleared range lies inside the buffer and then forgets the buffer's contents (the chips overwrite it anyway). */
void *memset(void *s, int c, size_t n)
{
    __CPROVER_assert(s == (void *)g_play.m_outBuf && n <= sizeof(g_play.m_outBuf), "GEN memset stays inside the mix buffer");
    __CPROVER_havoc_slice(g_play.m_outBuf, sizeof(g_play.m_outBuf));
    return s;
}
#ifdef WITH_GENERATE
void h_opn2_generateFormat(void)
{
    static OPN2_UInt8 l[8], r[8]; OPNMIDI_AudioFormat fmt; int n = nondet_int();
    g_play.m_synth = &g_synth; g_send_fails = nondet_bool(); g_sent_frames = 0;
    int got = opn2_generateFormat(nondet_bool() ? &g_device : NULL, n, l, r, &fmt);
    REACH(got == 1000 && n == 1001, "odd request rounded down"); REACH(got == 0 && n < 0, "negative"); REACH(got == 0 && n > 10 && g_send_fails, "refused format");
}
#endif
#ifdef WITH_PLAY
int g_atend_seen;
void h_opn2_playFormat(void)
{
    static OPN2_UInt8 l[8], r[8]; OPNMIDI_AudioFormat fmt; int n = nondet_int();
    g_play.m_synth = &g_synth; g_send_fails = nondet_bool(); g_sent_frames = 0; g_atend_seen = 0;
    int got = opn2_playFormat(nondet_bool() ? &g_device : NULL, n, l, r, &fmt);
    REACH(got == 1000 && n == 1001, "odd request rounded down"); REACH(got == 0 && n < 0, "negative"); REACH(got == 0 && n > 10 && g_send_fails, "refused format");
    REACH(got == 10 && n == 100 && g_atend_seen, "short at the end of the song");
    if(0) { seq_positionAtEnd(); player_Tick(0.0, 0.0); }   /* keeps the replaced symbols in the binary when a change removes their calls */
}
#endif
#endif
