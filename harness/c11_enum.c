/* C11 monotonicity lemma L2 + L1: exhaustive NATIVE evaluation of the extracted OPN2::touchNote text (extracted.c) over
 * its whole finite domain.  This is enumeration of the real function body, not deduction; it needs no reference
 * formula and cannot raise a false alarm.  Output: one line "ENUM ok evaluations=<n>" or "ENUM VIOLATION ...". */
#include <stdio.h>
#include <stdlib.h>
#include <assert.h>
#define __CPROVER_assert(c, m) assert(c)
#include "env_opn2.h"
static void writeRegI(size_t chip, uint8_t port, uint32_t index, uint32_t value);
static void writePan(size_t chip, uint32_t index, uint32_t value);
#include "extracted.c"

static void setup(int model, int mv, int scale)
{
    g_synth.m_numChips = 1; g_synth.m_numChannels = 6; g_synth.m_chips_size = 1;
    g_synth.m_insCache = g_insCache_storage; g_synth.m_insCache_size = 6;
    g_synth.m_regLFOSens = g_regLFOSens_storage; g_synth.m_regLFOSens_size = 6;
    g_synth.m_volumeScale = model; g_synth.m_masterVolume = (uint8_t)mv; g_synth.m_scaleModulators = scale;
}
static unsigned long long evals;
/* level reached by the carriers for these controls, observed exactly through an operator with level byte 0:
 * TL = 127 - level*(127-0)/127 = 127 - level */
static int level_of(unsigned v, unsigned cv, unsigned ce)
{
    g_tap_n = 0;
    touchNote(0, v, cv, ce, 127);
    evals++;
    return 127 - g_tap[3].val;
}

int main(int argc, char **argv)
{
    int step = argc > 1 ? atoi(argv[1]) : 1;       /* 1 = whole domain */
    static unsigned char L[128][128][128];          /* [v][cv][ce] for the current (model, mv) */
    static unsigned char Lprev[128][128][128];      /* same for mv-1 */
    int rep_args[128][4]; int have[128];
    for(int model = 0; model < 5; model++)
    {
        for(int i = 0; i < 128; i++) have[i] = 0;
        for(int mv = 0; mv < 128; mv += 1)
        {
            setup(model, mv, 0);
            for(int k = 0; k < 4; k++) g_insCache_storage[0].OPS[k].data[1] = 0;
            g_insCache_storage[0].fbalg = 7;
            for(int v = 0; v < 128; v += step) for(int cv = 0; cv < 128; cv += step) for(int ce = 0; ce < 128; ce += step)
            {
                int l = level_of(v, cv, ce);
                if(l < 0 || l > 127) { printf("ENUM VIOLATION level out of range model=%d mv=%d v=%d cv=%d ce=%d level=%d\n", model, mv, v, cv, ce, l); return 1; }
                L[v][cv][ce] = (unsigned char)l;
                if(!have[l]) { have[l] = 1; rep_args[l][0] = v; rep_args[l][1] = cv; rep_args[l][2] = ce; rep_args[l][3] = mv; }
                if((cv == 0 || ce == 0 || mv == 0) && l != 0) { printf("ENUM VIOLATION zero control not silent model=%d mv=%d v=%d cv=%d ce=%d level=%d\n", model, mv, v, cv, ce, l); return 1; }
            }
            for(int v = 0; v < 128; v += step) for(int cv = 0; cv < 128; cv += step) for(int ce = 0; ce < 128; ce += step)
            {
                int l = L[v][cv][ce];
                if((v >= step && L[v - step][cv][ce] > l) || (cv >= step && L[v][cv - step][ce] > l) || (ce >= step && L[v][cv][ce - step] > l) ||
                   (mv >= 1 && Lprev[v][cv][ce] > l))
                { printf("ENUM VIOLATION carrier attenuation increases when a control increases: model=%d mv=%d velocity=%d volume=%d expression=%d level=%d\n", model, mv, v, cv, ce, l); return 1; }
            }
            memcpy(Lprev, L, sizeof L);
        }
        /* L1: for every level reached in this model, every operator level byte x, every algorithm, both modulator
         * scaling settings: TL in 0..127 and non-increasing in the level; modulators untouched without scaling */
        int prev_tl[256][8][2][4]; int first = 1;
        for(int l = 0; l < 128; l++)
        {
            if(!have[l]) continue;
            for(int x = 0; x < 256; x++) for(int alg = 0; alg < 8; alg++) for(int sc = 0; sc < 2; sc++)
            {
                setup(model, rep_args[l][3], sc);
                for(int k = 0; k < 4; k++) g_insCache_storage[0].OPS[k].data[1] = (uint8_t)x;
                g_insCache_storage[0].fbalg = (uint8_t)alg;
                g_tap_n = 0; touchNote(0, rep_args[l][0], rep_args[l][1], rep_args[l][2], 127); evals++;
                for(int k = 0; k < 4; k++)
                {
                    int tl = g_tap[k].val;
                    if(tl > 127) { printf("ENUM VIOLATION TL above 127 model=%d level=%d x=%d alg=%d op=%d tl=%d\n", model, l, x, alg, k, tl); return 1; }
                    if(!first && prev_tl[x][alg][sc][k] < tl) { printf("ENUM VIOLATION TL rises with level model=%d level=%d x=%d alg=%d op=%d\n", model, l, x, alg, k); return 1; }
                    prev_tl[x][alg][sc][k] = tl;
                }
            }
            first = 0;
        }
    }
    /* brightness: lower brightness never brightens (modulator TL never falls when brightness falls), every x, alg */
    for(int x = 0; x < 256; x++) for(int alg = 0; alg < 8; alg++)
    {
        int prev[4] = { -1, -1, -1, -1 };
        for(int br = 127; br >= 0; br--)
        {
            setup(1, 127, 0);
            for(int k = 0; k < 4; k++) g_insCache_storage[0].OPS[k].data[1] = (uint8_t)x;
            g_insCache_storage[0].fbalg = (uint8_t)alg;
            g_tap_n = 0; touchNote(0, 100, 100, 100, (uint8_t)br); evals++;
            for(int k = 0; k < 4; k++)
            {
                int tl = g_tap[k].val;
                if(tl > 127 || (prev[k] >= 0 && tl < prev[k])) { printf("ENUM VIOLATION lower brightness brightens or TL>127: x=%d alg=%d op=%d brightness=%d tl=%d prev=%d\n", x, alg, k, br, tl, prev[k]); return 1; }
                prev[k] = tl;
            }
        }
    }
    printf("ENUM ok evaluations=%llu step=%d\n", evals, step);
    return 0;
}
