/* C12 harness: the two statement ranges of realTime_NoteOn before the channel allocation, extracted on every run. */
#include "noteon_contracts.h"
unsigned g_other_calls; pl_cell_NoteInfo g_note_cell; const OpnInstMeta g_cell_instrument; MIDIchannel g_chan_win[1]; MIDIchannel g_chan_before;
const OpnInstMeta m_emptyInstrument = { .flags = Flag_NoSound };
noteon_result g_res; noteon_args g_args; size_t g_key[3]; bool g_present[3]; OpnInstMeta g_entry[3]; size_t g_entry_index;
#include "extracted.c"
#define REACH(cond, name) __CPROVER_assert(!(cond), "REACH " name)
uint8_t nondet_u8(void); _Bool nondet_bool(void);
uint8_t in_channel, in_note, in_velocity;
void h_realTime_NoteOn_args(void)
{
    g_play.m_midiChannels = g_midiChannels_storage; g_play.m_synth = &g_synth;
    in_channel = nondet_u8(); in_note = nondet_u8(); in_velocity = nondet_u8();
    g_args.reached = false;
    realTime_NoteOn_args(in_channel, in_note, in_velocity);
    REACH(g_args.reached && in_channel == 16, "channel 16"); REACH(g_args.reached && in_note == 255, "note 255"); REACH(!g_args.reached && in_velocity == 0, "note-off");
    REACH(g_synth.m_musicMode == MODE_RSXX && in_channel == 200 && in_velocity != 0, "rsxx with channel 200");
}
void h_realTime_NoteOn_resolve(void)
{
    g_play.hooks.onDebugMessage = nondet_bool() ? env_debug_hook : NULL;
    in_channel = nondet_u8(); in_note = nondet_u8(); in_velocity = nondet_u8();
    /* the ghost map: the three keys the documented fallback may ask for, each present or not; equal keys share presence */
    size_t b = spec_bank_number(in_channel);
    g_key[0] = b; g_key[1] = b & ~(size_t)0x7F; g_key[2] = b & PercussionTag;
    g_present[0] = nondet_bool(); g_present[1] = nondet_bool(); g_present[2] = nondet_bool();
    g_entry_index = SPEC_ENTRY(in_channel, in_note);
    g_res.reached = false;
    realTime_NoteOn_resolve(in_channel, in_note, in_velocity, &g_chan_win[0], &g_synth);
    REACH(g_res.ains == &g_entry[0] && g_res.midiins == 5 && !g_res.isPercussion, "melodic from its own bank");
    REACH(g_res.ains == &g_entry[1] && g_key[1] != g_key[0], "fallback LSB cleared");
    REACH(g_res.ains == &g_entry[2] && g_key[2] != g_key[1], "fallback bank 0");
    REACH(g_res.isPercussion && in_channel != 9 && g_res.bank == (size_t)PercussionTag + 128 + 3, "xg sfx kit");
    REACH((g_res.ains->flags & Flag_NoSound) != 0, "blank"); REACH(g_res.tone != in_note, "drum key");
}
