/* Harnesses for wopn_file.c (Route A, file verified in place). One entry point per obligation group. */
#include "wopn_contracts.h"
#include "wopn/wopn_file.c"   /* the repository file itself, current working tree (-I$REPO/src) */

size_t g_k;

#define REACH(cond, name) __CPROVER_assert(!(cond), "REACH " name)

static void *xmalloc(size_t n) { void *p = malloc(n); __CPROVER_assume(p != NULL); return p; }
/* establishes the stated precondition on the mutable magic pointers for harnesses that inline file functions */
static void statics_ok(void) { wopn2_magic1 = SPEC_WOPN_MAGIC1; wopn2_magic2 = SPEC_WOPN_MAGIC2; opni_magic1 = SPEC_OPNI_MAGIC1; opni_magic2 = SPEC_OPNI_MAGIC2; }
uint8_t nondet_u8(void); uint16_t nondet_u16(void); size_t nondet_size(void); int nondet_int(void);

/* ---------- leaf codecs: contract of each, enforced ---------- */
void h_toUint16LE(void) { const uint8_t *a; uint16_t r = toUint16LE(a); REACH(r == 0xBEEF, "value"); }
void h_toUint16BE(void) { const uint8_t *a; uint16_t r = toUint16BE(a); REACH(r == 0xBEEF, "value"); }
void h_toSint16BE(void) { const uint8_t *a; int16_t r = toSint16BE(a); REACH(r == -32768, "min"); REACH(r == 32767, "max"); }
void h_fromUint16LE(void) { uint8_t *a; fromUint16LE(nondet_u16(), a); REACH(1, "returns"); }
void h_fromUint16BE(void) { uint8_t *a; fromUint16BE(nondet_u16(), a); REACH(1, "returns"); }
void h_fromSint16BE(void) { uint8_t *a; fromSint16BE((int16_t)nondet_u16(), a); REACH(1, "returns"); }

/* codec inverse lemmas, all 2^16 values (complete) */
void h_codec_inverse(void)
{
    uint8_t b[2]; uint16_t x = nondet_u16();
    fromUint16LE(x, b); __CPROVER_assert(toUint16LE(b) == x, "LEMMA toUint16LE(fromUint16LE(x)) == x");
    fromUint16BE(x, b); __CPROVER_assert(toUint16BE(b) == x, "LEMMA toUint16BE(fromUint16BE(x)) == x");
    fromSint16BE((int16_t)x, b); __CPROVER_assert(toSint16BE(b) == (int16_t)x, "LEMMA toSint16BE(fromSint16BE(x)) == x");
    uint8_t c[2]; c[0] = nondet_u8(); c[1] = nondet_u8();
    fromUint16BE(toUint16BE(c), b); __CPROVER_assert(b[0] == c[0] && b[1] == c[1], "LEMMA fromUint16BE(toUint16BE(b)) == b");
    fromSint16BE(toSint16BE(c), b); __CPROVER_assert(b[0] == c[0] && b[1] == c[1], "LEMMA fromSint16BE(toSint16BE(b)) == b");
    fromUint16LE(toUint16LE(c), b); __CPROVER_assert(b[0] == c[0] && b[1] == c[1], "LEMMA fromUint16LE(toUint16LE(b)) == b");
    REACH(x == 0x8000, "x");
}

/* ---------- instrument record: contracts enforced ---------- */
void h_parseInstrument(void)
{
    WOPNInstrument *ins; uint8_t *cur; uint16_t v = nondet_u16(); uint8_t has = nondet_u8();
    WOPN_parseInstrument(ins, cur, v, has);
    REACH(v == 2 && has, "v2 bank entry"); REACH(v == 1, "v1"); REACH(v == 2 && !has, "v2 opni"); REACH(v > 2 && has, "future version");
}
void h_writeInstrument(void)
{
    WOPNInstrument *ins; uint8_t *cur; uint16_t v = nondet_u16(); uint8_t has = nondet_u8();
    WOPN_writeInstrument(ins, cur, v, has);
    REACH(v == 2 && has, "v2 bank entry"); REACH(v == 1, "v1"); REACH(v == 2 && !has, "v2 opni");
}

/* ---------- instrument lemmas over the two contracts (both calls replaced by their contracts) ---------- */
static bool ins_equal(const WOPNInstrument *a, const WOPNInstrument *b)
{
    bool ok = true;
    for(int k = 0; k < 32; k++) ok = ok && a->inst_name[k] == b->inst_name[k];
    ok = ok && a->note_offset == b->note_offset && a->midi_velocity_offset == b->midi_velocity_offset
         && a->percussion_key_number == b->percussion_key_number && a->inst_flags == b->inst_flags
         && a->fbalg == b->fbalg && a->lfosens == b->lfosens && a->delay_on_ms == b->delay_on_ms
         && a->delay_off_ms == b->delay_off_ms;
    for(int l = 0; l < 4; l++)
        ok = ok && a->operators[l].dtfm_30 == b->operators[l].dtfm_30 && a->operators[l].level_40 == b->operators[l].level_40
             && a->operators[l].rsatk_50 == b->operators[l].rsatk_50 && a->operators[l].amdecay1_60 == b->operators[l].amdecay1_60
             && a->operators[l].decay2_70 == b->operators[l].decay2_70 && a->operators[l].susrel_80 == b->operators[l].susrel_80
             && a->operators[l].ssgeg_90 == b->operators[l].ssgeg_90;
    return ok;
}
/* representable name: NUL inside the first 31 bytes, zero padded after it (what strncpy + forced NUL reproduces) */
static bool name_repr(const char *n)
{
    bool end = false, ok = true;
    for(int k = 0; k < 32; k++) { ok = ok && (!end || n[k] == 0); end = end || n[k] == 0; }
    return ok && n[31] == 0;
}

/* round trip of one record: for EVERY instrument value x, parse(write(x)) == canon(x), where canon is what the
 * statement says the format drops/rewrites: v1 (and OPNI) carry no delays and no flags; v2 bank entries carry
 * the delays and encode blank as "both delays zero"; the name is cut at its first NUL. */
void h_ins_roundtrip(void)
{
    WOPNInstrument *x = xmalloc(sizeof *x), *y = xmalloc(sizeof *y);
    uint8_t *buf; uint16_t v = nondet_u16(); uint8_t has = nondet_u8();
    __CPROVER_assume(v == 1 || v == 2);
    buf = xmalloc(SPEC_INS_SIZE(v, has));
    WOPNInstrument y0 = *y;
    WOPN_writeInstrument(x, buf, v, has);
    WOPN_parseInstrument(y, buf, v, has);
    bool carries = (v == 2 && has);
#ifdef KF_C15_BLANK_DELAY
    /* witness class of known finding KF-C15-1 excluded: blank flag <=> both delays zero */
    __CPROVER_assume(!carries || (((x->inst_flags & WOPN_Ins_IsBlank) != 0) == (x->delay_on_ms == 0 && x->delay_off_ms == 0)));
#endif
    /* fields every version carries */
    __CPROVER_assert(y->note_offset == x->note_offset && y->percussion_key_number == x->percussion_key_number &&
                     y->fbalg == x->fbalg && y->lfosens == x->lfosens, "ROUNDTRIP scalar fields survive");
    for(int l = 0; l < 4; l++)
        __CPROVER_assert(memcmp(&y->operators[l], &x->operators[l], sizeof(WOPNOperator)) == 0, "ROUNDTRIP operator registers survive");
    if(name_repr(x->inst_name))
        __CPROVER_assert(memcmp(y->inst_name, x->inst_name, 32) == 0, "ROUNDTRIP representable name survives");
    __CPROVER_assert(spec_name32_parsed(y->inst_name, x->inst_name), "ROUNDTRIP name is cut at the first NUL and nothing else");
    if(carries)
    {
        /* literal statement of the property for version 2: an equal value comes back */
        __CPROVER_assert(y->delay_on_ms == x->delay_on_ms && y->delay_off_ms == x->delay_off_ms, "ROUNDTRIP-V2 delays survive");
        __CPROVER_assert((y->inst_flags & WOPN_Ins_IsBlank) == (x->inst_flags & WOPN_Ins_IsBlank), "ROUNDTRIP-V2 blank flag survives");
#ifdef KF_C15_RESERVED
        /* witness class of known finding KF-C15-3 excluded: reserved velocity offset and flag bits the format has no room for */
        __CPROVER_assume(x->midi_velocity_offset == 0 && (x->inst_flags & ~WOPN_Ins_IsBlank) == 0);
#endif
        __CPROVER_assert(y->inst_flags == x->inst_flags && y->midi_velocity_offset == x->midi_velocity_offset, "ROUNDTRIP-V2 reserved fields survive");
    }
    else
    {
        /* version 1 / OPNI drop exactly delays and flags: destination keeps its delays, flags cleared */
        __CPROVER_assert(y->delay_on_ms == y0.delay_on_ms && y->delay_off_ms == y0.delay_off_ms, "ROUNDTRIP-V1 delays not carried");
        __CPROVER_assert(y->inst_flags == 0, "ROUNDTRIP-V1 flags not carried");
    }
    REACH(carries, "v2"); REACH(!carries && v == 1, "v1"); REACH(name_repr(x->inst_name) && x->inst_name[0] != 0, "repr name");
}

/* load -> save -> load identity on records: for EVERY byte block b, parse(write(parse(b))) == parse(b) */
void h_ins_load_save_load(void)
{
    WOPNInstrument *x = xmalloc(sizeof *x), *y = xmalloc(sizeof *y);
    uint16_t v = nondet_u16(); uint8_t has = nondet_u8();
    __CPROVER_assume(v == 1 || v == 2);
    uint8_t *b1 = xmalloc(SPEC_INS_SIZE(v, has)), *b2 = xmalloc(SPEC_INS_SIZE(v, has));
    uint16_t d_on = nondet_u16(), d_off = nondet_u16();
    x->delay_on_ms = d_on; x->delay_off_ms = d_off; y->delay_on_ms = d_on; y->delay_off_ms = d_off;
    WOPN_parseInstrument(x, b1, v, has);
    WOPN_writeInstrument(x, b2, v, has);
    WOPN_parseInstrument(y, b2, v, has);
    __CPROVER_assert(ins_equal(x, y), "LOADSAVELOAD record identity");
    REACH(v == 2 && has && (x->inst_flags & WOPN_Ins_IsBlank), "blank v2"); REACH(v == 1, "v1");
}

/* ---------- OPNI file functions ---------- */
void h_CalculateInstFileSize(void) { OPNIFile *f; size_t r = WOPN_CalculateInstFileSize(f, nondet_u16()); REACH(r == 77, "v1 size"); REACH(r == 79, "v2 size"); REACH(r == 0, "null"); }

void h_SaveInstToMem(void)
{
    OPNIFile *f; void *d; size_t len = nondet_size(); uint16_t v = nondet_u16();
    g_k = nondet_size();
    int r = WOPN_SaveInstToMem(f, d, len, v);
    REACH(r == WOPN_ERR_OK, "ok"); REACH(r == WOPN_ERR_UNEXPECTED_ENDING, "short");
    REACH(r == WOPN_ERR_OK && len > 100 && g_k > 90, "spare room");
}
void h_SaveInst_degenerate(void)
{
    statics_ok();
    OPNIFile *f = xmalloc(sizeof *f); OPNIFile f0 = *f; uint16_t v = nondet_u16();
    __CPROVER_assert(WOPN_SaveInstToMem(f, NULL, nondet_size(), v) == WOPN_ERR_NULL_POINTER, "DEGENERATE null destination is refused");
    uint8_t *d = xmalloc(0);
    __CPROVER_assert(WOPN_SaveInstToMem(f, d, 0, v) == WOPN_ERR_UNEXPECTED_ENDING, "DEGENERATE empty destination is refused");
    __CPROVER_assert(memcmp(f, &f0, sizeof f0) == 0, "DEGENERATE value untouched");
    REACH(1, "returns");
}
void h_LoadInstFromMem(void)
{
    OPNIFile *f; void *m; size_t len = nondet_size();
    int r = WOPN_LoadInstFromMem(f, m, len);
    REACH(r == WOPN_ERR_OK, "ok"); REACH(r == WOPN_ERR_UNEXPECTED_ENDING, "short"); REACH(r == WOPN_ERR_NULL_POINTER, "null");
    REACH(r == WOPN_ERR_BAD_MAGIC, "magic"); REACH(r == WOPN_ERR_NEWER_VERSION, "newer");
    REACH(r == WOPN_ERR_OK && len == 77, "v1 exact"); REACH(r == WOPN_ERR_UNEXPECTED_ENDING && len == 78, "78 short for v2");
}

/* file-level round trip: for every OPNIFile value and version in {0,1,2}: save into a buffer of exactly the
 * calculated size succeeds and load returns the value (flags/delays are not carried by the OPNI format) */
void h_opni_roundtrip(void)
{
    statics_ok();
    OPNIFile *x = xmalloc(sizeof *x), *y = xmalloc(sizeof *y);
    uint16_t v = nondet_u16(); __CPROVER_assume(v <= 2);
    size_t sz = WOPN_CalculateInstFileSize(x, v);
    size_t extra = nondet_size(); __CPROVER_assume(extra <= 4);
    uint8_t *buf = xmalloc(sz + extra);
    uint16_t d_on = y->inst.delay_on_ms, d_off = y->inst.delay_off_ms;
    int rs = WOPN_SaveInstToMem(x, buf, sz + extra, v);
    __CPROVER_assert(rs == WOPN_ERR_OK, "OPNI save into the calculated size succeeds");
    int rl = WOPN_LoadInstFromMem(y, buf, sz);
    __CPROVER_assert(rl == WOPN_ERR_OK, "OPNI load of the saved bytes succeeds");
    __CPROVER_assert(y->version == SPEC_VERSION_EFF(v), "OPNI version survives");
    __CPROVER_assert(y->is_drum == x->is_drum, "OPNI drum flag survives");
    __CPROVER_assert(y->inst.note_offset == x->inst.note_offset && y->inst.percussion_key_number == x->inst.percussion_key_number &&
                     y->inst.fbalg == x->inst.fbalg && y->inst.lfosens == x->inst.lfosens, "OPNI scalar fields survive");
    for(int l = 0; l < 4; l++)
        __CPROVER_assert(memcmp(&y->inst.operators[l], &x->inst.operators[l], sizeof(WOPNOperator)) == 0, "OPNI operator registers survive");
    __CPROVER_assert(spec_name32_parsed(y->inst.inst_name, x->inst.inst_name), "OPNI name survives up to its first NUL");
    __CPROVER_assert(y->inst.inst_flags == 0 && y->inst.delay_on_ms == d_on && y->inst.delay_off_ms == d_off, "OPNI carries no flags or delays");
    REACH(v == 0, "v0"); REACH(v == 1, "v1"); REACH(v == 2, "v2"); REACH(extra == 4, "extra");
}
/* load->save->load on files: for every byte string the loader accepts */
void h_opni_load_save_load(void)
{
    statics_ok();
    size_t len = nondet_size(); __CPROVER_assume(len <= 96);
    uint8_t *m = xmalloc(len);
    OPNIFile *x = xmalloc(sizeof *x), *y = xmalloc(sizeof *y);
    uint16_t d_on = nondet_u16(), d_off = nondet_u16();
    x->inst.delay_on_ms = d_on; x->inst.delay_off_ms = d_off; y->inst.delay_on_ms = d_on; y->inst.delay_off_ms = d_off;
    int r1 = WOPN_LoadInstFromMem(x, m, len);
    if(r1 != WOPN_ERR_OK) return;
    size_t sz = WOPN_CalculateInstFileSize(x, x->version);
    uint8_t *buf = xmalloc(sz);
    int rs = WOPN_SaveInstToMem(x, buf, sz, x->version);
    __CPROVER_assert(rs == WOPN_ERR_OK, "LSL save of a loaded value succeeds");
    int r2 = WOPN_LoadInstFromMem(y, buf, sz);
    __CPROVER_assert(r2 == WOPN_ERR_OK, "LSL reload succeeds");
    __CPROVER_assert(y->version == SPEC_VERSION_EFF(x->version) && y->is_drum == x->is_drum && ins_equal(&x->inst, &y->inst), "LSL identity");
    REACH(x->version == 1, "v1"); REACH(x->version == 2, "v2"); REACH(x->version == 0, "v0 in magic2 file");
}

/* ---------- bank file functions ---------- */
void h_WOPN_Init(void)
{
    uint16_t m = nondet_u16(), p = nondet_u16();
    __CPROVER_assume(m <= 3 && p <= 3);   /* BOUND: counts <= 3 (symbolic calloc sizes of 9 KB elements did not finish); larger counts: assumed contract */
    WOPNFile *f = WOPN_Init(m, p);
    REACH(f != NULL && m == 0, "default melodic"); REACH(f != NULL && p == 3, "three percussive");
}
void h_LoadBankFromMem(void)
{
    void *m; size_t len = nondet_size(); int *err;
    WOPNFile *f = WOPN_LoadBankFromMem(m, len, err);
    REACH(f != NULL, "accepted"); REACH(f == NULL, "rejected");
    REACH(f != NULL && f->version == 1, "v1"); REACH(f != NULL && f->version == 2 && f->banks_count_melodic == 2, "v2 two banks");
}

/* bounded stand-in: header bytes fixed to 1 melodic + 1 percussive bank, loops unwound (labelled bounded, never counted as proved) */
void h_LoadBank_bounded_1_1(void)
{
    statics_ok();
    size_t len = nondet_size(); __CPROVER_assume(len <= 20000);
    uint8_t *m = xmalloc(len); int err = 12345;
    __CPROVER_assume(len < 17 || (m[len >= 17 ? (m[10] == 0 && m[9] == 'K' ? 11 : 13) : 0] == 0));
    /* declared counts: at most one bank each (bytes right after magic[/version]) */
    if(len >= 18) { size_t o = (m[6] == 'B' && m[7] == '2') ? 13 : 11; __CPROVER_assume(m[o] == 0 && m[o + 1] <= 1 && m[o + 2] == 0 && m[o + 3] <= 1); }
    WOPNFile *f = WOPN_LoadBankFromMem(m, len, &err);
    if(f) { __CPROVER_assert(f->version <= 2 && f->banks_count_melodic == 1 && f->banks_count_percussion == 1, "BOUNDED accepted file is well formed"); }
    else __CPROVER_assert(SPEC_IS_LOAD_ERROR(err), "BOUNDED rejected with a defined error code");
    REACH(f != NULL && f->version == 2, "v2 accepted"); REACH(f != NULL && f->version == 1, "v1 accepted"); REACH(f == NULL && err == WOPN_ERR_UNEXPECTED_ENDING, "short");
}

#ifndef CALC_V
#define CALC_V 2
#endif
void h_CalcBankSize(void) { WOPNFile *f; uint16_t v = CALC_V;   /* one group per version value 0,1,2 (a symbolic version makes ins_size*128*count a symbolic x symbolic product) */ size_t r = WOPN_CalculateBankFileSize(f, v); REACH(r == 0, "null"); REACH(r > 100000, "big"); }
