/* C03 harness: argument-facing real-time MIDI functions, extracted on every run (extracted.c). */
#include "rt_contracts.h"
unsigned g_other_calls; pl_cell_NoteInfo g_note_cell; const OpnInstMeta g_cell_instrument; MIDIchannel g_chan_win[1]; MIDIchannel g_chan_before;
static void MIDIchannel_updateBendSensitivity(MIDIchannel *self);
#include "extracted.c"
#define REACH(cond, name) __CPROVER_assert(!(cond), "REACH " name)
uint8_t nondet_u8(void); uint16_t nondet_u16(void);
uint8_t in_channel, in_a, in_b; uint16_t in_w;   /* named for the replay file */
#define SETUP g_play.m_midiChannels = g_midiChannels_storage; in_channel = nondet_u8(); in_a = nondet_u8(); in_b = nondet_u8(); in_w = nondet_u16();
void h_realTime_Controller(void) { SETUP realTime_Controller(in_channel, in_a, in_b); REACH(in_channel == 16, "channel 16"); REACH(in_channel == 255, "channel 255"); REACH(in_a == 7 && in_b == 200, "cc7 200"); REACH(in_a == 121, "reset ctrl"); }
void h_realTime_PatchChange(void) { SETUP realTime_PatchChange(in_channel, in_a); REACH(in_channel == 16 && in_a == 255, "ch16 prog 255"); }
void h_realTime_PitchBend(void) { SETUP realTime_PitchBend(in_channel, in_w); REACH(in_channel == 32, "ch32"); }
void h_realTime_PitchBend2(void) { SETUP realTime_PitchBend2(in_channel, in_a, in_b); REACH(in_channel == 16, "ch16"); }
void h_realTime_BankChangeLSB(void) { SETUP realTime_BankChangeLSB(in_channel, in_a); REACH(in_channel == 16, "ch16"); }
void h_realTime_BankChangeMSB(void) { SETUP realTime_BankChangeMSB(in_channel, in_a); REACH(in_channel == 16, "ch16"); }
void h_realTime_BankChange(void) { SETUP realTime_BankChange(in_channel, in_w); REACH(in_channel == 16, "ch16"); }
void h_realTime_ChannelAfterTouch(void) { SETUP realTime_ChannelAfterTouch(in_channel, in_a); REACH(in_channel == 16, "ch16"); }
void h_realTime_NoteOff(void) { SETUP realTime_NoteOff(in_channel, in_a); REACH(in_channel == 16, "ch16"); }
void h_realTime_NoteAfterTouch(void)
{
    in_channel = nondet_u8(); in_a = nondet_u8(); in_b = nondet_u8();
    g_play.m_midiChannels = g_chan_win - SPEC_FOLD(in_channel); g_play.m_midiChannels_size = ENV_N_MIDI_CHANNELS;
    realTime_NoteAfterTouch(in_channel, in_a, in_b);
    REACH(in_channel == 16 && in_a == 200, "ch16 note 200"); REACH(g_chan_win[0].noteAfterTouchInUse, "in use");
}
size_t nondet_size(void); unsigned nondet_unsigned(void); _Bool nondet_bool(void);
void h_updatePortamento(void) { g_play.m_midiChannels = g_midiChannels_storage; updatePortamento(nondet_size()); REACH(g_midiChannels_storage[15].portamentoEnable, "enabled"); }
void h_setRPN(void) { g_play.m_midiChannels = g_midiChannels_storage; setRPN(nondet_size(), nondet_unsigned(), nondet_bool()); REACH(g_midiChannels_storage[2].bendsense_msb == 12, "bend range 12"); REACH(g_midiChannels_storage[7].vibdelay_us > 0, "xg vibrato delay"); }
void h_resetAllControllers121(void) { MIDIchannel_resetAllControllers121(&g_midiChannels_storage[nondet_size() % 16]); REACH(1, "returns"); }
