/* Harness for OPN2 member functions extracted on every run (extracted.c). */
#include "opn2_contracts.h"
static void writeRegI(size_t chip, uint8_t port, uint32_t index, uint32_t value);
static void writePan(size_t chip, uint32_t index, uint32_t value);
MIDIchannel g_vol_chan[1]; unsigned g_touch_calls; size_t g_touch_c; unsigned long g_touch_v, g_touch_cv, g_touch_ce; uint8_t g_touch_br; bool g_fullrange;
enum { Upd_Volume_VALUE_CHECK = 0x4 };
#include "extracted.c"

uint8_t in_op_level[4]; uint8_t in_alg;
size_t in_c; unsigned long in_v, in_cv, in_ce; uint8_t in_br, in_mv; int in_model, in_scale; unsigned in_nchips;   /* named for the replay file */
#define REACH(cond, name) __CPROVER_assert(!(cond), "REACH " name)
uint8_t nondet_u8(void); size_t nondet_size(void); unsigned long nondet_ulong(void);

void h_touchNote(void)
{
    size_t c = nondet_size(); uint_fast32_t v = nondet_ulong(), cv = nondet_ulong(), ce = nondet_ulong(); uint8_t br = nondet_u8();
    for(int i = 0; i < 4; i++) in_op_level[i] = nondet_u8();
    in_alg = nondet_u8();
    g_synth.m_insCache = g_insCache_storage; g_synth.m_regLFOSens = g_regLFOSens_storage;   /* assigned, and stated again as preconditions */
    in_c = c; in_v = v; in_cv = cv; in_ce = ce; in_br = br; in_mv = g_synth.m_masterVolume; in_model = g_synth.m_volumeScale;
    in_scale = g_synth.m_scaleModulators; in_nchips = g_synth.m_numChips;
    touchNote(c, v, cv, ce, br);
    REACH(g_synth.m_volumeScale == VOLUME_Generic && g_tap[3].val < 127, "generic audible");
    REACH(g_synth.m_volumeScale == VOLUME_NATIVE && g_tap[3].val < 127, "native audible");
    REACH(g_synth.m_volumeScale == VOLUME_DMX && g_tap[3].val < 127, "dmx audible");
    REACH(g_synth.m_volumeScale == VOLUME_APOGEE && g_tap[3].val < 127, "apogee audible");
    REACH(g_synth.m_volumeScale == VOLUME_9X && g_tap[3].val < 127, "win9x audible");
    REACH(br < 127 && !g_synth.m_scaleModulators && in_alg == 0, "brightness path"); REACH(c >= 6 && g_synth.m_numChips > 1, "second chip");
    REACH(cv == 0, "silent");
}

uint8_t in_dtmul[4]; double in_tone;
double nondet_double(void);
void h_noteOn(void)
{
    size_t c = nondet_size(); double tone = nondet_double();
    g_synth.m_insCache = g_insCache_storage; g_synth.m_regLFOSens = g_regLFOSens_storage;
    for(int i = 0; i < 4; i++) in_dtmul[i] = nondet_u8();
    in_c = c; in_tone = tone; in_nchips = g_synth.m_numChips;
    noteOn(c, tone);
    REACH(g_tap_n == 7, "note keyed"); REACH(g_tap_n == 0, "refused");
    REACH(g_tap_n == 7 && g_tap[4].val == 0x3F, "top block"); REACH(g_tap_n == 7 && g_tap[6].val == 0xF6, "channel 6 key-on");
}
void h_noteOff(void)
{
    size_t c = nondet_size();
    noteOff(c);
    REACH(g_tap[0].val == 5, "channel 5");
}

OpnTimbre in_timbre;
void h_setPatch(void)
{
    size_t c = nondet_size(); g_synth.m_insCache = g_insCache_storage; g_synth.m_regLFOSens = g_regLFOSens_storage; in_c = c; in_nchips = g_synth.m_numChips;
    setPatch(c, &in_timbre);
    REACH(c == 11, "channel 11 (second chip, port 1)"); REACH(g_tap[29].val == 0xC5, "b4 value");
}
void h_setPan(void)
{
    size_t c = nondet_size(); uint8_t v = nondet_u8(); g_synth.m_insCache = g_insCache_storage; g_synth.m_regLFOSens = g_regLFOSens_storage; in_c = c;
    setPan(c, v);
    REACH(g_synth.m_softPanning, "soft"); REACH(!g_synth.m_softPanning && v == 47, "hard left only"); REACH(!g_synth.m_softPanning && v == 80, "hard right only");
}

#ifdef WITH_VOLUME_RANGE
_Bool nondet_bool(void); unsigned nondet_unsigned(void);
void h_noteUpdate_volume(void)
{
    size_t midCh = nondet_size(); uint16_t c = (uint16_t)(nondet_unsigned() & 0xFFFF); uint8_t vol = nondet_u8(); unsigned mask = nondet_unsigned();
    g_fullrange = nondet_bool(); __CPROVER_assume(midCh < ENV_N_MIDI_CHANNELS_VOL);
    __CPROVER_assert(Upd_Volume == Upd_Volume_VALUE_CHECK, "the contract's mask constant is the extracted Upd_Volume");
    noteUpdate_volume(midCh, c, vol, mask, g_vol_chan - midCh, g_fullrange);
    REACH((mask & Upd_Volume) && g_touch_br == 126, "half-range brightness 63 -> 126"); REACH((mask & Upd_Volume) && midCh == 9, "percussion channel"); REACH(!(mask & Upd_Volume), "no volume update");
}
#endif
