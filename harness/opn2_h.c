/* Harness for OPN2 member functions extracted on every run (extracted.c). */
#include "opn2_contracts.h"
static void writeRegI(size_t chip, uint8_t port, uint32_t index, uint32_t value);
static void writePan(size_t chip, uint32_t index, uint32_t value);
#include "extracted.c"

uint8_t in_op_level[4]; uint8_t in_alg;
size_t in_c; unsigned long in_v, in_cv, in_ce; uint8_t in_br, in_mv; int in_model, in_scale; unsigned in_nchips;   /* named for the replay file */
#define REACH(cond, name) __CPROVER_assert(!(cond), "REACH " name)
uint8_t nondet_u8(void); size_t nondet_size(void); unsigned long nondet_ulong(void);

void h_touchNote(void)
{
    size_t c = nondet_size(); uint_fast32_t v = nondet_ulong(), cv = nondet_ulong(), ce = nondet_ulong(); uint8_t br = nondet_u8();
    for(int i = 0; i < 4; i++) in_op_level[i] = nondet_u8();
    in_alg = nondet_u8();
    g_synth.m_insCache = g_insCache_storage; g_synth.m_regLFOSens = g_regLFOSens_storage;   /* assigned, and stated again as preconditions */
    in_c = c; in_v = v; in_cv = cv; in_ce = ce; in_br = br; in_mv = g_synth.m_masterVolume; in_model = g_synth.m_volumeScale;
    in_scale = g_synth.m_scaleModulators; in_nchips = g_synth.m_numChips;
    touchNote(c, v, cv, ce, br);
    REACH(g_synth.m_volumeScale == VOLUME_Generic && g_tap[3].val < 127, "generic audible");
    REACH(g_synth.m_volumeScale == VOLUME_NATIVE && g_tap[3].val < 127, "native audible");
    REACH(g_synth.m_volumeScale == VOLUME_DMX && g_tap[3].val < 127, "dmx audible");
    REACH(g_synth.m_volumeScale == VOLUME_APOGEE && g_tap[3].val < 127, "apogee audible");
    REACH(g_synth.m_volumeScale == VOLUME_9X && g_tap[3].val < 127, "win9x audible");
    REACH(br < 127 && !g_synth.m_scaleModulators && in_alg == 0, "brightness path"); REACH(c >= 6 && g_synth.m_numChips > 1, "second chip");
    REACH(cv == 0, "silent");
}

uint8_t in_dtmul[4]; double in_tone;
double nondet_double(void);
void h_noteOn(void)
{
    size_t c = nondet_size(); double tone = nondet_double();
    g_synth.m_insCache = g_insCache_storage; g_synth.m_regLFOSens = g_regLFOSens_storage;
    for(int i = 0; i < 4; i++) in_dtmul[i] = nondet_u8();
    in_c = c; in_tone = tone; in_nchips = g_synth.m_numChips;
    noteOn(c, tone);
    REACH(g_tap_n == 7, "note keyed"); REACH(g_tap_n == 0, "refused");
    REACH(g_tap_n == 7 && g_tap[4].val == 0x3F, "top block"); REACH(g_tap_n == 7 && g_tap[6].val == 0xF6, "channel 6 key-on");
}
void h_noteOff(void)
{
    size_t c = nondet_size();
    noteOff(c);
    REACH(g_tap[0].val == 5, "channel 5");
}

OpnTimbre in_timbre;
void h_setPatch(void)
{
    size_t c = nondet_size(); g_synth.m_insCache = g_insCache_storage; g_synth.m_regLFOSens = g_regLFOSens_storage; in_c = c; in_nchips = g_synth.m_numChips;
    setPatch(c, &in_timbre);
    REACH(c == 11, "channel 11 (second chip, port 1)"); REACH(g_tap[29].val == 0xC5, "b4 value");
}
void h_setPan(void)
{
    size_t c = nondet_size(); uint8_t v = nondet_u8(); g_synth.m_insCache = g_insCache_storage; g_synth.m_regLFOSens = g_regLFOSens_storage; in_c = c;
    setPan(c, v);
    REACH(g_synth.m_softPanning, "soft"); REACH(!g_synth.m_softPanning && v == 47, "hard left only"); REACH(!g_synth.m_softPanning && v == 80, "hard right only");
}
