/* Hand-written environment for OPN2 (synth) member functions extracted to C.  SPECIFICATION, not code under proof.
 * g_synth stands for *this of the single OPN2 object (rule R10 rewrites bare members to g_synth.member).
 * The chips behind m_chips[i]->writeReg()/writePan() are a register tap (rule R8): every write is recorded. */
#ifndef ENV_OPN2_H
#define ENV_OPN2_H
#include "verif_types.h"
#ifdef VERIF_CBMC
#include "opnmidi_verif_contracts.h"   /* loop contracts for the VERIF_LOOP markers that the extracted text carries */
#else
#define VERIF_LOOP(id)
#define VERIF_GHOST(decl)
#define VERIF_ENTRY(id)
#endif

#ifndef ENV_MAX_CHIPS
#define ENV_MAX_CHIPS 100                 /* the library's own limit (opn2_setNumChips) */
#endif
#define ENV_MAX_CH (6 * ENV_MAX_CHIPS)

struct OPN2 g_synth;
OpnTimbre g_insCache_storage[ENV_MAX_CH];  /* typed storage behind the std::vector members */
uint8_t   g_regLFOSens_storage[ENV_MAX_CH];

/* representation invariant of the synth object (what OPN2::reset establishes) */
#define ENV_SYNTH_INV \
    (g_synth.m_numChips >= 1 && g_synth.m_numChips <= ENV_MAX_CHIPS && g_synth.m_numChannels == 6 * g_synth.m_numChips && \
     g_synth.m_chips_size == g_synth.m_numChips && g_synth.m_insCache_size == g_synth.m_numChannels && \
     g_synth.m_regLFOSens_size == g_synth.m_numChannels && g_synth.m_insCache == g_insCache_storage && \
     g_synth.m_regLFOSens == g_regLFOSens_storage)

/* ---- register tap ---- */
#define TAP_MAX 40
typedef struct { size_t chip; uint8_t port; uint8_t addr; uint8_t val; bool is_pan; } tap_rec;
tap_rec  g_tap[TAP_MAX];
unsigned g_tap_n;
static void chip_writeReg(size_t chip, uint8_t port, uint8_t addr, uint8_t val)
{
    __CPROVER_assert(chip < g_synth.m_chips_size, "TAP chip index inside m_chips");
    if(g_tap_n < TAP_MAX) { g_tap[g_tap_n].chip = chip; g_tap[g_tap_n].port = port; g_tap[g_tap_n].addr = addr; g_tap[g_tap_n].val = val; g_tap[g_tap_n].is_pan = false; }
    g_tap_n++;
}
static void chip_writePan(size_t chip, uint16_t ch, uint8_t val)
{
    __CPROVER_assert(chip < g_synth.m_chips_size, "TAP chip index inside m_chips");
    if(g_tap_n < TAP_MAX) { g_tap[g_tap_n].chip = chip; g_tap[g_tap_n].port = 0; g_tap[g_tap_n].addr = (uint8_t)ch; g_tap[g_tap_n].val = val; g_tap[g_tap_n].is_pan = true; }
    g_tap_n++;
}
#endif
