/* Bank-file functions of wopn_file.c by LOOP-HEAD CUT POINTS (DESIGN.md C15.5).
 * The repository file is compiled unchanged; with -DVERIF_SEGMENTS the VERIF_LOOP/VERIF_ENTRY markers turn the marked
 * loop heads into cut points (see contracts/opnmidi_verif_contracts.h).  One group = one start point (-DSEG_START=<id>,
 * 0 = function entry): the invariant of the start loop is assumed on an arbitrary state, the real text runs to the next
 * cut point or return, and the invariant of the loop reached / the postcondition is asserted.  All segments together
 * are the base, step and exit cases of every loop: an unbounded proof in bank counts, input length and iterations.
 *
 * Environment: the current bank is a one-element typed window placed so that bankslots[i][j] is that element
 * (base = window - j); any access to another bank is an out-of-bounds failure (conservative). */
#define VERIF_SEGMENTS
#include "wopn_contracts.h"
struct verif_seg_state g_in, g_out;
int g_seg_start, g_seg_started, g_seg_exit;
#include "wopn/wopn_file.c"

size_t g_k;
#define REACH(cond, name) __CPROVER_assert(!(cond), "REACH " name)
uint8_t nondet_u8(void); uint16_t nondet_u16(void); size_t nondet_size(void); int nondet_int(void);
static void *xmalloc(size_t n) { void *p = malloc(n); __CPROVER_assume(p != NULL); return p; }
static void statics_ok(void) { wopn2_magic1 = SPEC_WOPN_MAGIC1; wopn2_magic2 = SPEC_WOPN_MAGIC2; opni_magic1 = SPEC_OPNI_MAGIC1; opni_magic2 = SPEC_OPNI_MAGIC2; }

#ifndef SEG_START
#define SEG_START 0
#endif

static uint8_t *env_mem; static size_t env_len0;
/* typed static objects (malloc'd objects are untyped byte arrays for CBMC: symbolic record index k would make every
 * field access a symbolic byte extraction) */
static WOPNFile env_file_obj; WOPNBank verif_env_win0[1], verif_env_win1[1];
#define env_file (&env_file_obj)
#define env_win0 (verif_env_win0)
#define env_win1 (verif_env_win1)

/* ------------------------------------------------------------------ shared invariant vocabulary ----------- */
#define S_CONSUMED(s) ((s)->length0 - (s)->length)
#define S_SZ(s, ii) ((ii) == 0 ? (size_t)(s)->sz0 : (size_t)(s)->sz1)
#define S_J(s, ii) ((ii) == 0 ? (size_t)0 : ((ii) == 1 ? (size_t)(s)->sz0 : (size_t)(s)->sz0 + (size_t)(s)->sz1))   /* banks before slot ii */
#define S_ISZ(s) ((s)->version > 1 ? 69u : 65u)
#define S_NAMES(s) SPEC_BANK_NAMES((s)->version, (s)->sz0, (s)->sz1)
#define S_INS(s, n) ((s)->version > 1 ? (size_t)69 * (size_t)(n) : (size_t)65 * (size_t)(n))
#define S_TOTAL(s) ((s)->hdr + S_NAMES(s) + S_INS(s, 128 * ((size_t)(s)->sz0 + (size_t)(s)->sz1)))

static bool inv_common(const struct verif_seg_state *s)
{
    return s->length0 == env_len0 && s->length <= s->length0 && s->cursor == env_mem + S_CONSUMED(s) &&
           (s->hdr == 16 || s->hdr == 18) && s->version <= 2 && s->file == env_file &&
           s->bs0 == env_win0 - (s->i == 0 ? s->j : 0) && s->bs1 == env_win1 - (s->i == 1 ? s->j : 0);
}
static bool inv_names_i(const struct verif_seg_state *s) { return s->version >= 2 && s->i < 2 && S_CONSUMED(s) == s->hdr + 34 * S_J(s, s->i); }
static bool inv_names_j(const struct verif_seg_state *s) { return s->version >= 2 && s->i < 2 && s->j < S_SZ(s, s->i) && S_CONSUMED(s) == s->hdr + 34 * (S_J(s, s->i) + s->j); }
static bool inv_ins_i(const struct verif_seg_state *s) { return s->i < 2 && s->ins_size == S_ISZ(s) && S_CONSUMED(s) == s->hdr + S_NAMES(s) + S_INS(s, 128 * S_J(s, s->i)); }
static bool inv_ins_j(const struct verif_seg_state *s)
{
    return s->i < 2 && s->ins_size == S_ISZ(s) && s->j < S_SZ(s, s->i) && S_CONSUMED(s) == s->hdr + S_NAMES(s) + S_INS(s, 128 * (S_J(s, s->i) + s->j)) &&
           s->length >= S_INS(s, 128 * (S_SZ(s, s->i) - s->j));
}
static bool inv_ins_k(const struct verif_seg_state *s)
{
    return s->i < 2 && s->ins_size == S_ISZ(s) && s->j < S_SZ(s, s->i) && s->k < 128 &&
           S_CONSUMED(s) == s->hdr + S_NAMES(s) + S_INS(s, 128 * (S_J(s, s->i) + s->j) + s->k) &&
           s->length >= S_INS(s, (128 - (size_t)s->k) + 128 * (S_SZ(s, s->i) - s->j - 1));
}
static void havoc_state(struct verif_seg_state *s)
{
    s->i = nondet_u16(); s->j = nondet_u16(); s->k = nondet_u16(); s->version = nondet_u16(); s->cm = nondet_u16(); s->cp = nondet_u16();
    s->sz0 = nondet_u16(); s->sz1 = nondet_u16(); s->length = nondet_size(); s->length0 = env_len0; s->ins_size = nondet_u16(); s->hdr = nondet_size();
    s->file = env_file; s->cursor = env_mem + (s->length0 - s->length);
    s->i = SEG_I;   /* slot of this group (compile-time constant; one group per slot) */
    s->bs0 = env_win0 - (SEG_I == 0 ? s->j : 0); s->bs1 = env_win1 - (SEG_I == 1 ? s->j : 0);
}
static void env_setup(void)
{
    statics_ok();
    env_len0 = nondet_size(); __CPROVER_assume(env_len0 <= ((size_t)1 << 40));
    env_mem = xmalloc(env_len0);
}
/* the invariant of the loop whose head was reached holds on the captured state (ghost hdr carried over) */
static void assert_exit_inv(int load)
{
    g_out.hdr = g_in.hdr;
    if(load) { __CPROVER_assert(g_out.cm == g_out.sz0 && g_out.cp == g_out.sz1, "SEG declared counts unchanged"); }
    __CPROVER_assert(inv_common(&g_out), "SEG cursor/length/object bookkeeping holds at the loop head reached");
    int e = g_seg_exit % 10;
    if(e == 1) __CPROVER_assert(inv_names_i(&g_out), "SEG loop invariant: bank-names outer loop (offset = header + 34 * banks done)");
    if(e == 2) __CPROVER_assert(inv_names_j(&g_out), "SEG loop invariant: bank-names inner loop (offset = header + 34 * banks done, j < count)");
    if(e == 3) __CPROVER_assert(inv_ins_i(&g_out), "SEG loop invariant: instruments outer loop (offset = header + names + size*128*banks done)");
    if(e == 4) __CPROVER_assert(inv_ins_j(&g_out), "SEG loop invariant: instruments bank loop (offset formula, j < count, enough bytes left for the slot)");
    if(e == 5) __CPROVER_assert(inv_ins_k(&g_out), "SEG loop invariant: instruments record loop (offset formula = layout of record (i,j,k), k < 128, enough bytes left)");
    __CPROVER_assert(g_out.version == g_in.version && g_out.sz0 == g_in.sz0 && g_out.sz1 == g_in.sz1, "SEG version and counts unchanged");
}

/* =========================================================== LOAD ============================================= */
void h_seg_load(void)
{
    env_setup();
    int err = 12345; WOPNFile *ret;
#if SEG_START == 0
    /* entry: header parsing, for EVERY byte string (no well-formedness assumption); WOPN_Init by its contract */
    ret = WOPN_LoadBankFromMem(nondet_int() ? env_mem : NULL, env_len0, &err);
    if(g_seg_exit == 0)
    {
        __CPROVER_assert(ret == NULL, "SEG-LOAD entry returns only with an error (both loop nests are entered otherwise)");
        __CPROVER_assert(SPEC_IS_LOAD_ERROR(err), "SEG-LOAD rejected with a defined error code");
    }
    else
    {
        const uint8_t *m = env_mem; size_t hdr = g_out.length0 - g_out.length; WOPNFile *f = g_out.file;
        __CPROVER_assert(err == 12345, "SEG-LOAD error code untouched while no error");
        __CPROVER_assert(g_out.length0 == env_len0 && g_out.cursor == env_mem + hdr && hdr <= env_len0, "SEG-LOAD cursor bookkeeping after the header");
        __CPROVER_assert(spec_magic_is(m, SPEC_WOPN_MAGIC1) ? (hdr == 16 && g_out.version == 1)
                         : (spec_magic_is(m, SPEC_WOPN_MAGIC2) && hdr == 18 && g_out.version == SPEC_U16LE(m + 11) && g_out.version <= 2),
                         "SEG-LOAD magic/version decide the header length");
        __CPROVER_assert(g_out.cm == SPEC_U16BE(m + hdr - 5) && g_out.cp == SPEC_U16BE(m + hdr - 3) && g_out.sz0 == g_out.cm && g_out.sz1 == g_out.cp,
                         "SEG-LOAD declared bank counts are the header's big-endian fields");
        __CPROVER_assert(f != NULL && f->version == g_out.version && f->lfo_freq == (m[hdr - 1] & 0x0F) && f->volume_model == 0 &&
                         f->chip_type == (g_out.version >= 2 ? ((m[hdr - 1] >> 4) & 1) : 0), "SEG-LOAD header fields: version, LFO nibble, chip-type bit (version 2 only)");
        __CPROVER_assert(f->banks_count_melodic == SPEC_MAX1(g_out.cm) && f->banks_count_percussion == SPEC_MAX1(g_out.cp) &&
                         g_out.bs0 == f->banks_melodic && g_out.bs1 == f->banks_percussive, "SEG-LOAD allocated bank arrays have max(1, declared) entries");
        __CPROVER_assert(g_out.i == 0 && (g_seg_exit == VERIF_ID_wopn_load_names_i) == (g_out.version >= 2) &&
                         (g_seg_exit == VERIF_ID_wopn_load_ins_i) == (g_out.version < 2), "SEG-LOAD first loop reached: names for version 2, instruments otherwise");
        __CPROVER_assert(g_seg_exit != VERIF_ID_wopn_load_ins_i || g_out.ins_size == 65, "SEG-LOAD record size of version < 2");
    }
    REACH(g_seg_exit == VERIF_ID_wopn_load_names_i, "v2 header accepted"); REACH(g_seg_exit == VERIF_ID_wopn_load_ins_i, "v1 header accepted");
    REACH(g_seg_exit == 0 && err == WOPN_ERR_BAD_MAGIC, "bad magic"); REACH(g_seg_exit == 0 && err == WOPN_ERR_NEWER_VERSION, "newer version");
    REACH(g_seg_exit == 0 && err == WOPN_ERR_UNEXPECTED_ENDING, "short"); REACH(g_seg_exit == 0 && err == WOPN_ERR_NULL_POINTER, "null");
#elif SEG_START < 10
    havoc_state(&g_in);
    __CPROVER_assume(inv_common(&g_in) && g_in.cm == g_in.sz0 && g_in.cp == g_in.sz1);
#if SEG_START == 1
    __CPROVER_assume(inv_names_i(&g_in));
#elif SEG_START == 2
    __CPROVER_assume(inv_names_j(&g_in));
#elif SEG_START == 3
    __CPROVER_assume(inv_ins_i(&g_in));
#elif SEG_START == 4
    __CPROVER_assume(inv_ins_j(&g_in));
#elif SEG_START == 5
    __CPROVER_assume(inv_ins_k(&g_in));
#endif
    env_file->banks_melodic = g_in.bs0; env_file->banks_percussive = g_in.bs1;
    g_seg_start = SEG_START; g_seg_started = 0; g_seg_exit = 0;
    ret = WOPN_LoadBankFromMem(env_mem, env_len0, &err);
    if(g_seg_exit == 0)
    {
        if(ret != NULL)
        {
            /* normal end: every byte of the layout was consumed, nothing more */
            __CPROVER_assert(ret == env_file && err == 12345, "SEG-LOAD success returns the file and leaves the error code alone");
            __CPROVER_assert(SEG_START == 3 || SEG_START == 5, "SEG-LOAD success only from the end of the instrument loops");
            /* ... and then the last record ended exactly at the end of the declared layout */
            if(SEG_START == 5) __CPROVER_assert(g_in.i == 1 && (size_t)g_in.j + 1 == g_in.sz1 && g_in.k == 127 && S_CONSUMED(&g_in) + S_ISZ(&g_in) == S_TOTAL(&g_in), "SEG-LOAD success after the last record: consumed == declared layout size");
            if(SEG_START == 3) __CPROVER_assert(g_in.i == 1 && g_in.sz1 == 0 && S_CONSUMED(&g_in) == S_TOTAL(&g_in), "SEG-LOAD success with an empty last slot: consumed == declared layout size");
        }
        else
        {
            __CPROVER_assert(err == WOPN_ERR_UNEXPECTED_ENDING, "SEG-LOAD the only error inside the loops is 'unexpected ending'");
            __CPROVER_assert(env_len0 < S_TOTAL(&g_in), "SEG-LOAD 'unexpected ending' only if the block is shorter than the declared layout");
        }
    }
    else
        assert_exit_inv(1);
#if SEG_START == 2
    if(g_seg_exit != 0 || ret != NULL)
    {   /* the bank (i,j) got its name and bank numbers from the 34 bytes at header + 34*(banks before) */
        const uint8_t *rec = env_mem + S_CONSUMED(&g_in); const WOPNBank *b = g_in.i == 0 ? env_win0 : env_win1;
        __CPROVER_assert(spec_name32_copied(b->bank_name, (const char *)rec) && b->bank_name[32] == 0 && b->bank_midi_lsb == rec[32] && b->bank_midi_msb == rec[33],
                         "SEG-LOAD layout: bank (i,j) is read from offset header + 34*(banks before)");
    }
#endif
#if SEG_START == 5
    if(g_seg_exit != 0 || ret != NULL)
    {   /* record (i,j,k) was parsed from the bytes at its layout offset into its own slot */
        const uint8_t *rec = env_mem + S_CONSUMED(&g_in); const WOPNInstrument *x = &(g_in.i == 0 ? env_win0 : env_win1)->ins[g_in.k];
        __CPROVER_assert(spec_name32_parsed(x->inst_name, (const char *)rec) && SPEC_INS_FIXED_EQ(x, rec), "SEG-LOAD layout: record (i,j,k) is parsed from offset header + names + size*(128*(banks before)+k)");
        __CPROVER_assert(g_in.version < 2 || (x->delay_on_ms == SPEC_U16BE(rec + 65) && x->delay_off_ms == SPEC_U16BE(rec + 67)), "SEG-LOAD layout: version-2 delays of record (i,j,k)");
    }
#endif
    REACH(g_seg_exit != 0, "next loop head reached"); REACH(g_seg_exit == 0 && ret == NULL, "error return");
#if SEG_START >= 3
    REACH(g_seg_exit == 0 && ret != NULL, "successful return");
#endif
#endif
}

/* =========================================================== SAVE ============================================= */
/* Save segments use ids 11..15; SEG_START 10 = function entry. env_mem is the destination of exactly env_len0 bytes. */
void h_seg_save(void)
{
    env_setup();
    int ret; uint16_t version = nondet_u16(), force_gm = nondet_u16();
#if SEG_START == 10
    env_file->banks_melodic = env_win0; env_file->banks_percussive = env_win1;
    ret = WOPN_SaveBankToMem(env_file, env_mem, env_len0, version, force_gm);
    uint16_t v = SPEC_VERSION_EFF(version); size_t hdr = SPEC_BANK_HDR(v);
    uint16_t bm = force_gm ? 1 : env_file->banks_count_melodic, bp = force_gm ? 1 : env_file->banks_count_percussion;
    if(g_seg_exit == 0)
    {
        __CPROVER_assert(ret == WOPN_ERR_UNEXPECTED_ENDING && env_len0 < hdr, "SEG-SAVE entry returns only when the header does not fit, with 'unexpected ending'");
    }
    else
    {
        const uint8_t *m = env_mem;
        __CPROVER_assert(g_out.length0 == env_len0 && g_out.length0 - g_out.length == hdr && g_out.cursor == env_mem + hdr && hdr <= env_len0, "SEG-SAVE cursor bookkeeping after the header");
        __CPROVER_assert(v > 1 ? (spec_magic_is(m, SPEC_WOPN_MAGIC2) && SPEC_U16LE(m + 11) == v) : spec_magic_is(m, SPEC_WOPN_MAGIC1), "SEG-SAVE magic and version field");
        __CPROVER_assert(SPEC_U16BE(m + hdr - 5) == bm && SPEC_U16BE(m + hdr - 3) == bp && g_out.sz0 == bm && g_out.sz1 == bp, "SEG-SAVE bank counts (1+1 when GM is forced)");
        __CPROVER_assert(m[hdr - 1] == ((env_file->lfo_freq & 0x0F) | (v >= 2 ? ((env_file->chip_type & 1) << 4) : 0)), "SEG-SAVE flags byte: LFO nibble, chip-type bit for version 2");
        __CPROVER_assert(g_out.version == v && g_out.i == 0 && g_out.bs0 == env_win0 && g_out.bs1 == env_win1 && g_out.file == env_file &&
                         (g_seg_exit == VERIF_ID_wopn_save_names_i) == (v >= 2) && (g_seg_exit == VERIF_ID_wopn_save_ins_i) == (v < 2), "SEG-SAVE first loop reached");
        __CPROVER_assert(g_seg_exit != VERIF_ID_wopn_save_ins_i || g_out.ins_size == 65, "SEG-SAVE record size of version 1");
    }
    REACH(g_seg_exit == VERIF_ID_wopn_save_names_i, "v2"); REACH(g_seg_exit == VERIF_ID_wopn_save_ins_i, "v1"); REACH(g_seg_exit == 0, "short");
    REACH(g_seg_exit != 0 && force_gm && env_file->banks_count_melodic == 5, "forced GM");
#elif SEG_START > 10
    havoc_state(&g_in);
    __CPROVER_assume(inv_common(&g_in) && g_in.version >= 1 && g_in.hdr == SPEC_BANK_HDR(g_in.version));
#if SEG_START == 11
    __CPROVER_assume(inv_names_i(&g_in));
#elif SEG_START == 12
    __CPROVER_assume(inv_names_j(&g_in));
#elif SEG_START == 13
    __CPROVER_assume(inv_ins_i(&g_in));
#elif SEG_START == 14
    __CPROVER_assume(inv_ins_j(&g_in));
#elif SEG_START == 15
    __CPROVER_assume(inv_ins_k(&g_in));
#endif
    env_file->banks_melodic = g_in.bs0; env_file->banks_percussive = g_in.bs1;
    WOPNBank w0 = *env_win0, w1 = *env_win1; WOPNFile f0 = *env_file;
    g_seg_start = SEG_START; g_seg_started = 0; g_seg_exit = 0;
    ret = WOPN_SaveBankToMem(env_file, env_mem, env_len0, version, force_gm);
    if(g_seg_exit == 0)
    {
        if(ret == WOPN_ERR_OK)
        {
            __CPROVER_assert(SEG_START == 13 || SEG_START == 15, "SEG-SAVE success only from the end of the instrument loops");
            if(SEG_START == 15) __CPROVER_assert(g_in.i == 1 && (size_t)g_in.j + 1 == g_in.sz1 && g_in.k == 127 && S_CONSUMED(&g_in) + S_ISZ(&g_in) == S_TOTAL(&g_in), "SEG-SAVE success after the last record: written == layout size");
            if(SEG_START == 13) __CPROVER_assert(g_in.i == 1 && g_in.sz1 == 0 && S_CONSUMED(&g_in) == S_TOTAL(&g_in), "SEG-SAVE success with an empty last slot: written == layout size");
        }
        else
        {
            __CPROVER_assert(ret == WOPN_ERR_UNEXPECTED_ENDING, "SEG-SAVE the only error is 'unexpected ending'");
            __CPROVER_assert(env_len0 < S_TOTAL(&g_in), "SEG-SAVE refused only if the destination is smaller than the layout");
        }
    }
    else
        assert_exit_inv(0);
    /* the value being saved is never modified */
    __CPROVER_assert(memcmp(&w0, env_win0, sizeof w0) == 0 && memcmp(&w1, env_win1, sizeof w1) == 0 && memcmp(&f0, env_file, sizeof f0) == 0, "SEG-SAVE the bank value is not modified");
#if SEG_START == 12
    if(g_seg_exit != 0 || ret == WOPN_ERR_OK)
    {
        const uint8_t *rec = env_mem + S_CONSUMED(&g_in); const WOPNBank *b = g_in.i == 0 ? env_win0 : env_win1;
        __CPROVER_assert(memcmp(rec, b->bank_name, 32) == 0 && rec[32] == b->bank_midi_lsb && rec[33] == b->bank_midi_msb, "SEG-SAVE layout: bank (i,j) is written at offset header + 34*(banks before)");
    }
#endif
#if SEG_START == 15
    if(g_seg_exit != 0 || ret == WOPN_ERR_OK)
    {
        const uint8_t *rec = env_mem + S_CONSUMED(&g_in); const WOPNInstrument *x = &(g_in.i == 0 ? env_win0 : env_win1)->ins[g_in.k];
        __CPROVER_assert(spec_name32_copied((const char *)rec, x->inst_name) && SPEC_INS_FIXED_EQ(x, rec), "SEG-SAVE layout: record (i,j,k) is written at offset header + names + size*(128*(banks before)+k)");
        __CPROVER_assert(g_in.version < 2 || ((x->inst_flags & WOPN_Ins_IsBlank) ? (SPEC_U16BE(rec + 65) == 0 && SPEC_U16BE(rec + 67) == 0)
                         : (SPEC_U16BE(rec + 65) == x->delay_on_ms && SPEC_U16BE(rec + 67) == x->delay_off_ms)), "SEG-SAVE layout: version-2 delays of record (i,j,k)");
    }
#endif
    REACH(g_seg_exit != 0, "next loop head reached"); REACH(g_seg_exit == 0 && ret != WOPN_ERR_OK, "error return");
#if SEG_START == 13 || SEG_START == 15
    REACH(g_seg_exit == 0 && ret == WOPN_ERR_OK, "successful return");
#endif
#endif
}
