/* Bank-file functions of wopn_file.c by LOOP-HEAD CUT POINTS (DESIGN.md C15.5).
 * The repository file is compiled unchanged; with -DVERIF_SEGMENTS the VERIF_LOOP/VERIF_ENTRY markers turn the marked
 * loop heads into cut points (see contracts/opnmidi_verif_contracts.h).  One group = one start point (-DSEG_START=<id>,
 * 0 = function entry): the invariant of the start loop is assumed on an arbitrary state, the real text runs to the next
 * cut point or return, and the invariant of the loop reached / the postcondition is asserted.  All segments together
 * are the base, step and exit cases of every loop: an unbounded proof in bank counts, input length and iterations.
 *
 * Environment: the current bank is a one-element typed window placed so that bankslots[i][j] is that element
 * (base = window - j); any access to another bank is an out-of-bounds failure (conservative). */
#define VERIF_SEGMENTS
#ifndef SEG_START
#define SEG_START 0
#endif
#ifndef SEG_J_BOUND
#define SEG_J_BOUND 64
#endif
#if SEG_START % 10 == 5
#define SEG_INS_WINDOW   /* record loops: one-record window */
#endif
#if SEG_START % 10 == 2 || SEG_START % 10 == 5
/* data-moving segments: the caller's block is represented by a window of the bytes the segment may touch, i.e. the next
 * min(bytes left, item size) bytes at the cursor; an access outside them is an out-of-bounds failure */
#define SEG_MEM_WINDOW
#endif
#if SEG_START % 10 == 2
#define SEG_NAME_WINDOW  /* bank-name loops: window of the 35 name/LSB/MSB bytes */
#endif
#include "wopn_contracts.h"
struct verif_seg_state g_in, g_out;
int g_seg_start, g_seg_started, g_seg_exit;
/* byte-wise memcpy model for the segment runs: CBMC's built-in model first asserts __CPROVER_r_ok(src, n), which rejects
 * the window pointers (base = window - j) although every byte access is in bounds; here every byte is dereferenced
 * (and bounds-checked) individually */
void *memcpy(void *dst, const void *src, size_t n)
{
    for(size_t q = 0; q < n; q++) ((char *)dst)[q] = ((const char *)src)[q];
    return dst;
}
#include "wopn/wopn_file.c"

size_t g_k;
#define REACH(cond, name) __CPROVER_assert(!(cond), "REACH " name)
uint8_t nondet_u8(void); uint16_t nondet_u16(void); size_t nondet_size(void); int nondet_int(void);
static void *xmalloc(size_t n) { void *p = malloc(n); __CPROVER_assume(p != NULL); return p; }
static void statics_ok(void) { wopn2_magic1 = SPEC_WOPN_MAGIC1; wopn2_magic2 = SPEC_WOPN_MAGIC2; opni_magic1 = SPEC_OPNI_MAGIC1; opni_magic2 = SPEC_OPNI_MAGIC2; }

#ifndef SEG_START
#define SEG_START 0
#endif

static uint8_t *env_mem; static size_t env_len0;
/* typed static objects (malloc'd objects are untyped byte arrays for CBMC: symbolic record index k would make every
 * field access a symbolic byte extraction) */
static WOPNFile env_file_obj; WOPNBank verif_env_win0[1], verif_env_win1[1]; WOPNInstrument verif_env_ins_win[1];
#ifdef SEG_NAME_WINDOW
struct verif_bank_head verif_env_name_win[1];
#endif
#define env_file (&env_file_obj)
#define env_win0 (verif_env_win0)
#define env_win1 (verif_env_win1)

/* ------------------------------------------------------------------ shared invariant vocabulary ----------- */
#define S_CONSUMED(s) ((s)->length0 - (s)->length)
#define S_SZ(s, ii) ((ii) == 0 ? (size_t)(s)->sz0 : (size_t)(s)->sz1)
#define S_J(s, ii) ((ii) == 0 ? (size_t)0 : ((ii) == 1 ? (size_t)(s)->sz0 : (size_t)(s)->sz0 + (size_t)(s)->sz1))   /* banks before slot ii */
#define S_ISZ(s) ((s)->version > 1 ? 69u : 65u)
#define S_NAMES(s) SPEC_BANK_NAMES((s)->version, (s)->sz0, (s)->sz1)
#define S_INS(s, n) ((s)->version > 1 ? (size_t)69 * (size_t)(n) : (size_t)65 * (size_t)(n))
/* instrument area in per-slot additive form (no product of a sum: SAT cannot do distributivity of 64-bit products) */
#define S_SLOTS_BEFORE(s, ii) (((ii) >= 1 ? S_INS(s, 128 * (size_t)(s)->sz0) : (size_t)0) + ((ii) >= 2 ? S_INS(s, 128 * (size_t)(s)->sz1) : (size_t)0))
#define S_TOTAL(s) ((s)->hdr + S_NAMES(s) + S_INS(s, 128 * (size_t)(s)->sz0) + S_INS(s, 128 * (size_t)(s)->sz1))

#ifdef SEG_INS_WINDOW
#define ENV_REC_BASE(s) ((WOPNBank *)((char *)(verif_env_ins_win - (s)->k) - offsetof(WOPNBank, ins)) - (s)->j)
#define ENV_BS(s, ii) (SEG_I == (ii) ? ENV_REC_BASE(s) : ((ii) == 0 ? env_win0 : env_win1))
#define ENV_CUR_INS(s) (&verif_env_ins_win[0])
#elif defined(SEG_NAME_WINDOW)
#define ENV_BS(s, ii) (SEG_I == (ii) ? ((WOPNBank *)(void *)verif_env_name_win - (s)->j) : ((ii) == 0 ? env_win0 : env_win1))
#define ENV_CUR_BANK(s) ((const struct verif_bank_head *)&verif_env_name_win[0])
#else
#define ENV_BS(s, ii) (((ii) == 0 ? env_win0 : env_win1) - (SEG_I == (ii) ? (s)->j : 0))
#endif
/* value part of the bookkeeping invariant (asserted at every loop head reached) */
#ifdef SEG_MEM_WINDOW
#define ENV_REC(s) ((const uint8_t *)env_mem)
#else
#define ENV_REC(s) ((const uint8_t *)env_mem + S_CONSUMED(s))
#endif
static bool inv_common(const struct verif_seg_state *s)
{
#ifdef SEG_MEM_WINDOW
    return s->length0 == env_len0 && s->length <= s->length0 && s->cursor == env_mem && (s->hdr == 16 || s->hdr == 18);
#else
    return s->length0 == env_len0 && s->length <= s->length0 && s->cursor == env_mem + S_CONSUMED(s) && (s->hdr == 16 || s->hdr == 18);
#endif
}
/* environment part (assumed at the start of a segment only): the slot pointers are positioned so that the current
 * bank / record is the typed window */
static bool env_windows(const struct verif_seg_state *s) { return s->bs0 == ENV_BS(s, 0) && s->bs1 == ENV_BS(s, 1); }

/* ---- structural transition relations between two loop heads (what one segment of the code does to the state);
 *      the arithmetic consequence  Inv(in) && T(in,out) ==> Inv(out)  is proved once, for all integers, by the
 *      lemma groups (h_lemma_*), so that the segment queries contain no multiplier reasoning ---- */
static bool t_same_file(const struct verif_seg_state *a, const struct verif_seg_state *b)
{
    return a->version == b->version && a->sz0 == b->sz0 && a->sz1 == b->sz1 && a->length0 == b->length0 && a->hdr == b->hdr &&
           a->file == b->file && a->bs0 == b->bs0 && a->bs1 == b->bs1;
}
#define T_MOVED(a, b, bytes) ((b)->length + (bytes) == (a)->length && (b)->cursor == (a)->cursor + (bytes) && (a)->length >= (bytes))
static bool t_transition(int from, int to, const struct verif_seg_state *a, const struct verif_seg_state *b)
{
    size_t sz = S_SZ(a, a->i); size_t isz = S_ISZ(a);
    if(!t_same_file(a, b)) return false;
    switch(from * 10 + to)
    {
    case 12: return b->i == a->i && b->j == 0 && sz > 0 && T_MOVED(a, b, 0);
    case 11: return sz == 0 && b->i == a->i + 1 && b->i < 2 && T_MOVED(a, b, 0);
    case 13: return sz == 0 && a->i == 1 && b->i == 0 && b->ins_size == isz && T_MOVED(a, b, 0);
    case 22: return b->i == a->i && b->j == a->j + 1 && b->j < sz && T_MOVED(a, b, 34);
    case 21: return (size_t)a->j + 1 == sz && b->i == a->i + 1 && b->i < 2 && T_MOVED(a, b, 34);
    case 23: return (size_t)a->j + 1 == sz && a->i == 1 && b->i == 0 && b->ins_size == isz && T_MOVED(a, b, 34);
    case 34: return b->i == a->i && b->j == 0 && sz > 0 && b->ins_size == a->ins_size && T_MOVED(a, b, 0) && a->length >= S_INS(a, 128 * sz);
    case 33: return sz == 0 && b->i == a->i + 1 && b->i < 2 && b->ins_size == a->ins_size && T_MOVED(a, b, 0);
    case 45: return b->i == a->i && b->j == a->j && b->k == 0 && b->ins_size == a->ins_size && T_MOVED(a, b, 0);
    case 55: return b->i == a->i && b->j == a->j && b->k == a->k + 1 && b->k < 128 && b->ins_size == a->ins_size && T_MOVED(a, b, isz);
    case 54: return a->k == 127 && b->i == a->i && b->j == a->j + 1 && b->j < sz && b->ins_size == a->ins_size && T_MOVED(a, b, isz);
    case 53: return a->k == 127 && (size_t)a->j + 1 == sz && b->i == a->i + 1 && b->i < 2 && b->ins_size == a->ins_size && T_MOVED(a, b, isz);
    default: return false;
    }
}
/* a segment may also end the function: success only at the very end of the layout, error only when short */
static bool t_returns_ok(int from, const struct verif_seg_state *a)
{
    size_t sz = S_SZ(a, a->i);
    return (from == 3 && a->i == 1 && sz == 0) || (from == 5 && a->i == 1 && (size_t)a->j + 1 == sz && a->k == 127 && a->length >= S_ISZ(a));
}
static bool t_returns_short(int from, const struct verif_seg_state *a)
{
    return (from == 2 && a->length < 34) || (from == 3 && a->length < S_INS(a, 128 * S_SZ(a, a->i)));
}
static bool inv_names_i(const struct verif_seg_state *s) { return s->version >= 2 && s->i < 2 && S_CONSUMED(s) == s->hdr + 34 * S_J(s, s->i); }
static bool inv_names_j(const struct verif_seg_state *s) { return s->version >= 2 && s->i < 2 && s->j < S_SZ(s, s->i) && S_CONSUMED(s) == s->hdr + 34 * (S_J(s, s->i) + s->j); }
static bool inv_ins_i(const struct verif_seg_state *s) { return s->i < 2 && s->ins_size == S_ISZ(s) && S_CONSUMED(s) == s->hdr + S_NAMES(s) + S_SLOTS_BEFORE(s, s->i); }
static bool inv_ins_j(const struct verif_seg_state *s)
{
    return s->i < 2 && s->ins_size == S_ISZ(s) && s->j < S_SZ(s, s->i) && S_CONSUMED(s) == s->hdr + S_NAMES(s) + S_SLOTS_BEFORE(s, s->i) + S_INS(s, 128 * (size_t)s->j) &&
           s->length >= S_INS(s, 128 * (S_SZ(s, s->i) - s->j));
}
static bool inv_ins_k(const struct verif_seg_state *s)
{
    return s->i < 2 && s->ins_size == S_ISZ(s) && s->j < S_SZ(s, s->i) && s->k < 128 &&
           S_CONSUMED(s) == s->hdr + S_NAMES(s) + S_SLOTS_BEFORE(s, s->i) + S_INS(s, 128 * (size_t)s->j + s->k) &&
           s->length >= S_INS(s, (128 - (size_t)s->k) + 128 * (S_SZ(s, s->i) - s->j - 1));
}
/* LOCAL consequences of the invariants: all a segment of code needs to know (no closed-form offsets, hence no multiplier
 * reasoning inside the code queries).  Inv ==> local is part of the lemma groups. */
static bool inv_local(int id, const struct verif_seg_state *s)
{
    size_t sz = S_SZ(s, s->i);
    switch(id)
    {
    case 1: return s->version >= 2 && s->i < 2;
    case 2: return s->version >= 2 && s->i < 2 && s->j < sz;
    case 3: return s->i < 2 && s->ins_size == S_ISZ(s);
    case 4: return s->i < 2 && s->ins_size == S_ISZ(s) && s->j < sz;
    case 5: return s->i < 2 && s->ins_size == S_ISZ(s) && s->j < sz && s->k < 128 && s->length >= S_ISZ(s);
    default: return false;
    }
}
static void havoc_state(struct verif_seg_state *s)
{
    s->i = nondet_u16(); s->j = nondet_u16(); s->k = nondet_u16(); s->version = nondet_u16(); s->cm = nondet_u16(); s->cp = nondet_u16();
    s->sz0 = nondet_u16(); s->sz1 = nondet_u16(); s->length = nondet_size(); s->length0 = env_len0; s->ins_size = nondet_u16(); s->hdr = nondet_size();
    s->file = env_file;
#ifdef SEG_MEM_WINDOW
    {   /* window of the next item: 34 bytes of bank name data / one record, or fewer if fewer are left */
        size_t item = (SEG_START % 10 == 2) ? 34 : (s->version > 1 ? 69 : 65);
        env_mem = xmalloc(s->length < item ? s->length : item);
    }
    s->cursor = env_mem;
#else
    s->cursor = env_mem + (s->length0 - s->length);
#endif
    s->i = SEG_I;   /* slot of this group (compile-time constant; one group per slot) */
#ifdef SEG_MEM_WINDOW
    /* BOUND (stated in the evidence): in the data-moving segments the bank index is below SEG_J_BOUND - the window
     * base is window - j and CBMC's SAT back end does not cancel j*sizeof(WOPNBank) for a 16-bit j (measured:
     * j < 64: 36 s, j < 1024: no answer in 200 s).  64 banks per slot is the domain the property itself names. */
    __CPROVER_assume(s->j < SEG_J_BOUND);
#endif
    s->bs0 = ENV_BS(s, 0); s->bs1 = ENV_BS(s, 1);
}
static void env_setup(void)
{
    statics_ok();
    env_len0 = nondet_size(); __CPROVER_assume(env_len0 <= ((size_t)1 << 40));
#ifndef SEG_MEM_WINDOW
    env_mem = xmalloc(env_len0);
#endif
}
/* the state captured at the loop head reached is related to the start state by the transition of that pair of heads */
static void assert_exit_transition(int load)
{
    g_out.hdr = g_in.hdr;
    if(load) { __CPROVER_assert(g_out.cm == g_out.sz0 && g_out.cp == g_out.sz1, "SEG declared counts unchanged"); }
    __CPROVER_assert(t_transition(SEG_START % 10, g_seg_exit % 10, &g_in, &g_out),
                     "SEG transition: the segment moves the cursor/length/indices exactly as the loop-head transition relation says");
    __CPROVER_assert(g_seg_exit / 10 == SEG_START / 10, "SEG stays inside its function");
}

/* =========================================================== LOAD ============================================= */
void h_seg_load(void)
{
    env_setup();
    int err = 12345; WOPNFile *ret;
#if SEG_START == 0
    /* entry: header parsing, for EVERY byte string (no well-formedness assumption); WOPN_Init by its contract */
    g_seg_start = 0; g_seg_started = 0; g_seg_exit = 0;
    ret = WOPN_LoadBankFromMem(nondet_int() ? env_mem : NULL, env_len0, &err);
    if(g_seg_exit == 0)
    {
        __CPROVER_assert(ret == NULL, "SEG-LOAD entry returns only with an error (both loop nests are entered otherwise)");
        __CPROVER_assert(SPEC_IS_LOAD_ERROR(err), "SEG-LOAD rejected with a defined error code");
    }
    else
    {
        const uint8_t *m = env_mem; size_t hdr = g_out.length0 - g_out.length; WOPNFile *f = g_out.file;
        __CPROVER_assert(err == 12345, "SEG-LOAD error code untouched while no error");
        __CPROVER_assert(g_out.length0 == env_len0 && g_out.cursor == env_mem + hdr && hdr <= env_len0, "SEG-LOAD cursor bookkeeping after the header");
        __CPROVER_assert(spec_magic_is(m, SPEC_WOPN_MAGIC1) ? (hdr == 16 && g_out.version == 1)
                         : (spec_magic_is(m, SPEC_WOPN_MAGIC2) && hdr == 18 && g_out.version == SPEC_U16LE(m + 11) && g_out.version <= 2),
                         "SEG-LOAD magic/version decide the header length");
        __CPROVER_assert(g_out.cm == SPEC_U16BE(m + hdr - 5) && g_out.cp == SPEC_U16BE(m + hdr - 3) && g_out.sz0 == g_out.cm && g_out.sz1 == g_out.cp,
                         "SEG-LOAD declared bank counts are the header's big-endian fields");
        __CPROVER_assert(f != NULL && f->version == g_out.version && f->lfo_freq == (m[hdr - 1] & 0x0F) && f->volume_model == 0 &&
                         f->chip_type == (g_out.version >= 2 ? ((m[hdr - 1] >> 4) & 1) : 0), "SEG-LOAD header fields: version, LFO nibble, chip-type bit (version 2 only)");
        __CPROVER_assert(f->banks_count_melodic == SPEC_MAX1(g_out.cm) && f->banks_count_percussion == SPEC_MAX1(g_out.cp) &&
                         g_out.bs0 == f->banks_melodic && g_out.bs1 == f->banks_percussive, "SEG-LOAD allocated bank arrays have max(1, declared) entries");
        __CPROVER_assert(g_out.i == 0 && (g_seg_exit == VERIF_ID_wopn_load_names_i) == (g_out.version >= 2) &&
                         (g_seg_exit == VERIF_ID_wopn_load_ins_i) == (g_out.version < 2), "SEG-LOAD first loop reached: names for version 2, instruments otherwise");
        __CPROVER_assert(g_seg_exit != VERIF_ID_wopn_load_ins_i || g_out.ins_size == 65, "SEG-LOAD record size of version < 2");
        g_out.hdr = hdr;
        __CPROVER_assert(inv_common(&g_out) && (g_seg_exit == VERIF_ID_wopn_load_names_i ? inv_names_i(&g_out) : inv_ins_i(&g_out)), "SEG-LOAD base case: invariant of the first loop reached");
    }
    REACH(g_seg_exit == VERIF_ID_wopn_load_names_i, "v2 header accepted"); REACH(g_seg_exit == VERIF_ID_wopn_load_ins_i, "v1 header accepted");
    REACH(g_seg_exit == 0 && err == WOPN_ERR_BAD_MAGIC, "bad magic"); REACH(g_seg_exit == 0 && err == WOPN_ERR_NEWER_VERSION, "newer version");
    REACH(g_seg_exit == 0 && err == WOPN_ERR_UNEXPECTED_ENDING, "short"); REACH(g_seg_exit == 0 && err == WOPN_ERR_NULL_POINTER, "null");
#elif SEG_START < 10
    havoc_state(&g_in);
    __CPROVER_assume(inv_common(&g_in) && env_windows(&g_in) && g_in.cm == g_in.sz0 && g_in.cp == g_in.sz1 && g_in.version <= 2);
#if SEG_START == 1
    __CPROVER_assume(inv_local(1, &g_in));
#elif SEG_START == 2
    __CPROVER_assume(inv_local(2, &g_in));
#elif SEG_START == 3
    __CPROVER_assume(inv_local(3, &g_in));
#elif SEG_START == 4
    __CPROVER_assume(inv_local(4, &g_in));
#elif SEG_START == 5
    __CPROVER_assume(inv_local(5, &g_in));
#endif
    env_file->banks_melodic = g_in.bs0; env_file->banks_percussive = g_in.bs1;
    g_seg_start = SEG_START; g_seg_started = 0; g_seg_exit = 0;
    ret = WOPN_LoadBankFromMem(env_mem, env_len0, &err);
    if(g_seg_exit == 0)
    {
        if(ret != NULL)
        {
            /* normal end: every byte of the layout was consumed, nothing more */
            __CPROVER_assert(ret == env_file && err == 12345, "SEG-LOAD success returns the file and leaves the error code alone");
            __CPROVER_assert(SEG_START == 3 || SEG_START == 5, "SEG-LOAD success only from the end of the instrument loops");
            /* ... and then the last record ended exactly at the end of the declared layout */
            __CPROVER_assert(t_returns_ok(SEG_START % 10, &g_in), "SEG-LOAD success only after the last record of the last slot (lemma: then consumed == declared layout size)");
        }
        else
        {
            __CPROVER_assert(err == WOPN_ERR_UNEXPECTED_ENDING, "SEG-LOAD the only error inside the loops is 'unexpected ending'");
            __CPROVER_assert(t_returns_short(SEG_START % 10, &g_in), "SEG-LOAD 'unexpected ending' only when the bytes left are fewer than the next item needs (lemma: then the block is shorter than the declared layout)");
        }
    }
    else
        assert_exit_transition(1);
#if SEG_START == 2
    if(g_seg_exit != 0 || ret != NULL)
    {   /* the bank (i,j) got its name and bank numbers from the 34 bytes at header + 34*(banks before) */
        const uint8_t *rec = ENV_REC(&g_in); const struct verif_bank_head *b = ENV_CUR_BANK(&g_in);
        __CPROVER_assert(spec_name32_copied(b->bank_name, (const char *)rec) && b->bank_name[32] == 0 && b->bank_midi_lsb == rec[32] && b->bank_midi_msb == rec[33],
                         "SEG-LOAD layout: bank (i,j) is read from offset header + 34*(banks before)");
    }
#endif
#if SEG_START == 5
    if(g_seg_exit != 0 || ret != NULL)
    {   /* record (i,j,k) was parsed from the bytes at its layout offset into its own slot */
        const uint8_t *rec = ENV_REC(&g_in); const WOPNInstrument *x = ENV_CUR_INS(&g_in);
        /* witness bytes at both ends of the record pin (slot, offset) for every input: any other cursor or slot makes one
         * of these differ for some byte string; the full byte-to-field relation is WOPN_parseInstrument's own contract */
        __CPROVER_assert(x->inst_name[0] == (char)rec[0] && x->percussion_key_number == rec[34] && x->fbalg == rec[35] &&
                         x->operators[0].dtfm_30 == rec[37] && x->operators[3].ssgeg_90 == rec[64],
                         "SEG-LOAD layout: record (i,j,k) is parsed from offset header + names + size*(128*(banks before)+k) into its own slot");
        __CPROVER_assert(g_in.version < 2 || (x->delay_on_ms == SPEC_U16BE(rec + 65) && x->delay_off_ms == SPEC_U16BE(rec + 67)), "SEG-LOAD layout: version-2 delays of record (i,j,k)");
    }
#endif
    REACH(g_seg_exit != 0, "next loop head reached");
#if SEG_START == 2 || SEG_START == 3
    REACH(g_seg_exit == 0 && ret == NULL, "error return");
#endif
#if (SEG_START == 3 || SEG_START == 5) && SEG_I == 1
    REACH(g_seg_exit == 0 && ret != NULL, "successful return");
#endif
#endif
}

/* =========================================================== SAVE ============================================= */
/* Save segments use ids 11..15; SEG_START 10 = function entry. env_mem is the destination of exactly env_len0 bytes. */
void h_seg_save(void)
{
    env_setup();
    int ret; uint16_t version = nondet_u16(), force_gm = nondet_u16();
#if SEG_START == 10
    env_file->banks_melodic = env_win0; env_file->banks_percussive = env_win1;
    g_seg_start = 0; g_seg_started = 0; g_seg_exit = 0;
    ret = WOPN_SaveBankToMem(env_file, env_mem, env_len0, version, force_gm);
    uint16_t v = SPEC_VERSION_EFF(version); size_t hdr = SPEC_BANK_HDR(v);
    uint16_t bm = force_gm ? 1 : env_file->banks_count_melodic, bp = force_gm ? 1 : env_file->banks_count_percussion;
    if(g_seg_exit == 0)
    {
        __CPROVER_assert(ret == WOPN_ERR_UNEXPECTED_ENDING && env_len0 < hdr, "SEG-SAVE entry returns only when the header does not fit, with 'unexpected ending'");
    }
    else
    {
        const uint8_t *m = env_mem;
        __CPROVER_assert(g_out.length0 == env_len0 && g_out.length0 - g_out.length == hdr && g_out.cursor == env_mem + hdr && hdr <= env_len0, "SEG-SAVE cursor bookkeeping after the header");
        __CPROVER_assert(v > 1 ? (spec_magic_is(m, SPEC_WOPN_MAGIC2) && SPEC_U16LE(m + 11) == v) : spec_magic_is(m, SPEC_WOPN_MAGIC1), "SEG-SAVE magic and version field");
        __CPROVER_assert(SPEC_U16BE(m + hdr - 5) == bm && SPEC_U16BE(m + hdr - 3) == bp && g_out.sz0 == bm && g_out.sz1 == bp, "SEG-SAVE bank counts (1+1 when GM is forced)");
        __CPROVER_assert(m[hdr - 1] == ((env_file->lfo_freq & 0x0F) | (v >= 2 ? ((env_file->chip_type & 1) << 4) : 0)), "SEG-SAVE flags byte: LFO nibble, chip-type bit for version 2");
        __CPROVER_assert(g_out.version == v && g_out.i == 0 && g_out.bs0 == env_win0 && g_out.bs1 == env_win1 && g_out.file == env_file &&
                         (g_seg_exit == VERIF_ID_wopn_save_names_i) == (v >= 2) && (g_seg_exit == VERIF_ID_wopn_save_ins_i) == (v < 2), "SEG-SAVE first loop reached");
        __CPROVER_assert(g_seg_exit != VERIF_ID_wopn_save_ins_i || g_out.ins_size == 65, "SEG-SAVE record size of version 1");
        g_out.hdr = hdr;
        __CPROVER_assert(inv_common(&g_out) && (g_seg_exit == VERIF_ID_wopn_save_names_i ? inv_names_i(&g_out) : inv_ins_i(&g_out)), "SEG-SAVE base case: invariant of the first loop reached");
    }
    REACH(g_seg_exit == VERIF_ID_wopn_save_names_i, "v2"); REACH(g_seg_exit == VERIF_ID_wopn_save_ins_i, "v1"); REACH(g_seg_exit == 0, "short");
    REACH(g_seg_exit != 0 && force_gm && env_file->banks_count_melodic == 5, "forced GM");
#elif SEG_START > 10
    havoc_state(&g_in);
    __CPROVER_assume(inv_common(&g_in) && env_windows(&g_in) && g_in.version >= 1 && g_in.hdr == SPEC_BANK_HDR(g_in.version));
#if SEG_START == 11
    __CPROVER_assume(inv_local(1, &g_in));
#elif SEG_START == 12
    __CPROVER_assume(inv_local(2, &g_in));
#elif SEG_START == 13
    __CPROVER_assume(inv_local(3, &g_in));
#elif SEG_START == 14
    __CPROVER_assume(inv_local(4, &g_in));
#elif SEG_START == 15
    __CPROVER_assume(inv_local(5, &g_in));
#endif
    env_file->banks_melodic = g_in.bs0; env_file->banks_percussive = g_in.bs1;
    WOPNFile f0 = *env_file; WOPNInstrument x0 = verif_env_ins_win[0];
    size_t q = nondet_size(); __CPROVER_assume(q < sizeof(WOPNBank));       /* ghost byte index into the bank windows */
    uint8_t q0 = ((const uint8_t *)env_win0)[q], q1 = ((const uint8_t *)env_win1)[q];
    g_seg_start = SEG_START; g_seg_started = 0; g_seg_exit = 0;
    ret = WOPN_SaveBankToMem(env_file, env_mem, env_len0, version, force_gm);
    if(g_seg_exit == 0)
    {
        if(ret == WOPN_ERR_OK)
        {
            __CPROVER_assert(SEG_START == 13 || SEG_START == 15, "SEG-SAVE success only from the end of the instrument loops");
            __CPROVER_assert(t_returns_ok(SEG_START % 10, &g_in), "SEG-SAVE success only after the last record of the last slot (lemma: then written == layout size)");
        }
        else
        {
            __CPROVER_assert(ret == WOPN_ERR_UNEXPECTED_ENDING, "SEG-SAVE the only error is 'unexpected ending'");
            __CPROVER_assert(t_returns_short(SEG_START % 10, &g_in), "SEG-SAVE refused only when the bytes left are fewer than the next item needs (lemma: then the destination is smaller than the layout)");
        }
    }
    else
        assert_exit_transition(0);
    /* the value being saved is never modified */
    __CPROVER_assert(((const uint8_t *)env_win0)[q] == q0 && ((const uint8_t *)env_win1)[q] == q1 && memcmp(&f0, env_file, sizeof f0) == 0 &&
                     memcmp(&x0, &verif_env_ins_win[0], sizeof x0) == 0, "SEG-SAVE the bank value is not modified");
#if SEG_START == 12
    if(g_seg_exit != 0 || ret == WOPN_ERR_OK)
    {
        const uint8_t *rec = ENV_REC(&g_in); const struct verif_bank_head *b = ENV_CUR_BANK(&g_in);
        __CPROVER_assert(memcmp(rec, b->bank_name, 32) == 0 && rec[32] == b->bank_midi_lsb && rec[33] == b->bank_midi_msb, "SEG-SAVE layout: bank (i,j) is written at offset header + 34*(banks before)");
    }
#endif
#if SEG_START == 15
    if(g_seg_exit != 0 || ret == WOPN_ERR_OK)
    {
        const uint8_t *rec = ENV_REC(&g_in); const WOPNInstrument *x = ENV_CUR_INS(&g_in);
        __CPROVER_assert(rec[0] == (uint8_t)x->inst_name[0] && rec[34] == x->percussion_key_number && rec[35] == x->fbalg &&
                         rec[37] == x->operators[0].dtfm_30 && rec[64] == x->operators[3].ssgeg_90,
                         "SEG-SAVE layout: record (i,j,k) is written at offset header + names + size*(128*(banks before)+k) from its own slot");
        __CPROVER_assert(g_in.version < 2 || ((g_in.version == 2 && (x->inst_flags & WOPN_Ins_IsBlank)) ? (SPEC_U16BE(rec + 65) == 0 && SPEC_U16BE(rec + 67) == 0)
                         : (SPEC_U16BE(rec + 65) == x->delay_on_ms && SPEC_U16BE(rec + 67) == x->delay_off_ms)), "SEG-SAVE layout: version-2 delays of record (i,j,k)");
    }
#endif
    REACH(g_seg_exit != 0, "next loop head reached");
#if SEG_START == 12 || SEG_START == 13
    REACH(g_seg_exit == 0 && ret != WOPN_ERR_OK, "error return");
#endif
#if (SEG_START == 13 || SEG_START == 15) && SEG_I == 1
    REACH(g_seg_exit == 0 && ret == WOPN_ERR_OK, "successful return");
#endif
#endif
}

/* =========================================================== ARITHMETIC LEMMAS ================================= */
/* Pure integer lemmas over two arbitrary states (no memory, no code): for every pair of loop heads,
 *   Inv_from(a) && T(a,b) ==> Inv_to(b);   success return ==> consumed == layout size;   short return ==> block < layout.
 * Together with the segment groups (which establish T on the real code) this is the loop rule for every loop. */
static bool inv_of(int id, const struct verif_seg_state *s)
{
    bool c = s->length <= s->length0 && (s->hdr == 16 || s->hdr == 18) && s->cursor == env_mem + S_CONSUMED(s);
    switch(id) { case 1: return c && inv_names_i(s); case 2: return c && inv_names_j(s); case 3: return c && inv_ins_i(s);
                 case 4: return c && inv_ins_j(s); case 5: return c && inv_ins_k(s); default: return false; }
}
#ifndef LEMMA_FROM
#define LEMMA_FROM 5
#endif
#ifndef LEMMA_TO
#define LEMMA_TO 5
#endif
#ifndef LEMMA_V
#define LEMMA_V 2
#endif
void h_lemma(void)
{
    struct verif_seg_state a, b; env_len0 = nondet_size(); env_mem = xmalloc(1);
    __CPROVER_assume(env_len0 <= ((size_t)1 << 40) && a.length0 == env_len0);
    __CPROVER_assume(inv_of(LEMMA_FROM, &a));
#if LEMMA_V == 1
    __CPROVER_assume(a.version <= 1);
#else
    __CPROVER_assume(a.version >= 2);
#endif
    __CPROVER_assert(inv_local(LEMMA_FROM, &a), "LEMMA the invariant implies the local facts the code segment starts from");
    int to = LEMMA_TO;
    if(to >= 1 && to <= 5)
    {
        if(t_transition(LEMMA_FROM, to, &a, &b))
            __CPROVER_assert(inv_of(to, &b), "LEMMA loop invariant carried across the transition (base/step/exit case of the loop rule)");
    }
    else if(to == 6)
    {
        if(t_returns_ok(LEMMA_FROM, &a))
            __CPROVER_assert(S_CONSUMED(&a) + (LEMMA_FROM == 5 ? S_ISZ(&a) : 0) == S_TOTAL(&a), "LEMMA success return: exactly the declared layout was consumed/written");
    }
    else if(to == 7)
    {
        if(t_returns_short(LEMMA_FROM, &a))
            __CPROVER_assert(a.length0 < S_TOTAL(&a), "LEMMA short return: the block is smaller than the declared layout");
    }
    REACH((to >= 1 && to <= 5 && t_transition(LEMMA_FROM, to, &a, &b)) || (to == 6 && t_returns_ok(LEMMA_FROM, &a)) || (to == 7 && t_returns_short(LEMMA_FROM, &a)), "the case of this lemma instance is satisfiable");
}
