/* C02 part 2 harness: instrument converters (template instantiations extracted on every run). */
#include "cvt_contracts.h"
#include <stdlib.h>
#include "extracted.c"
#define REACH(cond, name) __CPROVER_assert(!(cond), "REACH " name)
void h_to_FMIns_WOPN(void) { OpnInstMeta *m; const WOPNInstrument *g; cvt_generic_to_FMIns_WOPNInstrument(m, g); REACH(1, "returns"); }
void h_to_FMIns_OPNI(void) { OpnInstMeta *m; const OPN2_Instrument *g; cvt_generic_to_FMIns_OPN2_Instrument(m, g); REACH(1, "returns"); }
void h_from_FMIns_OPNI(void) { OPN2_Instrument *g; const OpnInstMeta *m; cvt_FMIns_to_generic_OPN2_Instrument(g, m); REACH(1, "returns"); }
/* lemma over the two contracts: an instrument written through the API and read back is the same instrument */
void h_opni_write_read_back(void)
{
    OPN2_Instrument *x = malloc(sizeof *x), *y = malloc(sizeof *y); OpnInstMeta *m = malloc(sizeof *m);
    __CPROVER_assume(x && y && m);
    cvt_generic_to_FMIns_OPN2_Instrument(m, x);
    cvt_FMIns_to_generic_OPN2_Instrument(y, m);
    __CPROVER_assert(y->note_offset == x->note_offset && y->midi_velocity_offset == x->midi_velocity_offset && y->percussion_key_number == x->percussion_key_number &&
                     y->inst_flags == x->inst_flags && y->fbalg == x->fbalg && y->lfosens == x->lfosens && y->delay_on_ms == x->delay_on_ms && y->delay_off_ms == x->delay_off_ms,
                     "READBACK scalar fields of an instrument survive write + read back");
    for(int l = 0; l < 4; l++)
        __CPROVER_assert(memcmp(&y->operators[l], &x->operators[l], sizeof(x->operators[l])) == 0, "READBACK operator registers survive write + read back");
    REACH(x->fbalg == 0x3C, "value");
}
