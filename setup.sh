#!/bin/sh
# Offline setup: nothing to build - the checks compile /repo's sources with goto-cc on every run.
# Verifies that the tools the checks need are on PATH.
set -e
cd "$(dirname "$0")"
for t in goto-cc goto-instrument cbmc cvc5 python3 gcc g++; do command -v $t >/dev/null || { echo "missing tool: $t"; exit 1; }; done
mkdir -p evidence replays
echo "setup ok"
