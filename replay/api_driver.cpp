// Library replay for C18: one setter call with the counterexample's argument; a failing call must leave every getter as it was.
// usage: api_driver <function> <arg>
#include <cstdio>
#include <cstdlib>
#include <cstring>
#include <string>
#include <vector>
#include <map>
#include <set>
#include <list>
#define private public
#define protected public
#include "opnmidi_midiplay.hpp"
#include "opnmidi_opn2.hpp"
#undef private
#undef protected
#include "opnmidi.h"
int main(int argc, char **argv)
{
    if(argc < 3) return 2;
    std::string f = argv[1]; int arg = atoi(argv[2]);
    OPN2_MIDIPlayer *dev = opn2_init(44100);
    OPNMIDIplay *play = reinterpret_cast<OPNMIDIplay *>(dev->opn2_midiPlayer);
    int chips0 = opn2_getNumChips(dev), emu0 = play->m_setup.emulator, id0 = play->m_sysExDeviceId; int bad = 0;
    if(f == "opn2_setNumChips") { int r = opn2_setNumChips(dev, arg); if(r < 0 && opn2_getNumChips(dev) != chips0) { printf("REPLAY-VIOLATION opn2_setNumChips(%d) failed (%d) but opn2_getNumChips changed %d -> %d\n", arg, r, chips0, opn2_getNumChips(dev)); bad = 1; } }
    else if(f == "opn2_switchEmulator") { int r = opn2_switchEmulator(dev, arg); if(r < 0 && play->m_setup.emulator != emu0) { printf("REPLAY-VIOLATION opn2_switchEmulator(%d) failed but the stored emulator changed %d -> %d\n", arg, emu0, play->m_setup.emulator); bad = 1; } }
    else if(f == "opn2_setDeviceIdentifier") { int r = opn2_setDeviceIdentifier(dev, (unsigned)arg); if(r != 0 && play->m_sysExDeviceId != id0) { printf("REPLAY-VIOLATION device id changed by a failing call\n"); bad = 1; } if(r == 0 && play->m_sysExDeviceId != (unsigned)arg) { printf("REPLAY-VIOLATION device id not stored\n"); bad = 1; } }
    else if(f == "opn2_setVolumeRangeModel")
    {
        opn2_setVolumeRangeModel(dev, OPNMIDI_VolumeModel_DMX);
        opn2_setVolumeRangeModel(dev, arg);
        int want = -1;
        if(arg == OPNMIDI_VolumeModel_AUTO) want = play->m_synth->m_insBankSetup.volumeModel;
        else if(arg >= OPNMIDI_VolumeModel_Generic && arg <= OPNMIDI_VolumeModel_9X) want = arg - 1;
        if(want >= 0 && (int)play->m_synth->m_volumeScale != want) { printf("REPLAY-VIOLATION volume model %d selected scale %d, expected %d\n", arg, (int)play->m_synth->m_volumeScale, want); bad = 1; }
    }
    else return 2;
    opn2_close(dev);
    if(!bad) printf("replayed %s(%d): behaves as specified\n", f.c_str(), arg);
    return bad;
}
