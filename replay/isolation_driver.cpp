// C14 library replay: instance A's PCM must not depend on what another Nuked-core instance does in between.
// usage: isolation_driver <bank.wopn>.  Exit 1 + "REPLAY-VIOLATION" when A's output differs, 0 otherwise.
#include <opnmidi.h>
#include <cstdio>
#include <cstring>
#include <cstdlib>
#include <vector>

static const char *g_bank;

static OPN2_MIDIPlayer *mk(int emu, int lfo)
{
    OPN2_MIDIPlayer *p = opn2_init(44100);
    if(!p) { std::printf("REPLAY-ERROR init\n"); exit(2); }
    opn2_switchEmulator(p, emu);
    opn2_setNumChips(p, 1);
    if(opn2_openBankFile(p, g_bank) < 0) { std::printf("REPLAY-ERROR bank %s\n", opn2_errorInfo(p)); exit(2); }
    if(lfo >= 0) { opn2_setLfoEnabled(p, 1); opn2_setLfoFrequency(p, lfo); }
    return p;
}

// scenario: A (emuA) plays; optionally B (emuB) is created, plays `bframes` frames in lock step and is closed
static std::vector<short> run(int emuA, int emuB, bool interfere, int block)
{
    std::vector<short> out;
    OPN2_MIDIPlayer *a = mk(emuA, 2);
    OPN2_MIDIPlayer *b = 0;
    short buf[2 * 512];
    static const int progs[3] = {0, 40, 72};
    for(int step = 0; step < 12; ++step)
    {
        if(interfere && step == 2) { b = mk(emuB, 7); }
        opn2_rt_patchChange(a, 0, progs[step % 3]);
        opn2_rt_noteOn(a, 0, 36 + step, 100);
        if(b) { opn2_rt_patchChange(b, 0, 56); opn2_rt_noteOn(b, 0, 96 - step, 127); opn2_rt_pitchBend(b, 0, 0x3000); }
        for(int k = 0; k < 192; k += block)
        {
            int n = opn2_generate(a, 2 * block, buf);
            out.insert(out.end(), buf, buf + (n > 0 ? n : 0));
            if(b) { short bb[2 * 512]; opn2_generate(b, 2 * block, bb); }
        }
        opn2_rt_noteOff(a, 0, 36 + step);
        if(b) opn2_rt_noteOff(b, 0, 96 - step);
        if(interfere && step == 9 && b) { opn2_close(b); b = 0; }
    }
    // second phase: a long LFO-modulated note on A (strings, mod wheel up) while B, if still alive, keeps playing
    if(interfere && !b) { b = mk(emuB, 5); opn2_rt_patchChange(b, 1, 48); opn2_rt_noteOn(b, 1, 70, 120); }
    opn2_rt_patchChange(a, 1, 48);
    opn2_rt_controllerChange(a, 1, 1, 127);
    opn2_rt_noteOn(a, 1, 57, 120);
    for(int k = 0; k < 3072; k += 64)
    {
        int n = opn2_generate(a, 2 * 64, buf);
        out.insert(out.end(), buf, buf + (n > 0 ? n : 0));
        if(b) { short bb[2 * 512]; opn2_generate(b, 2 * 64, bb); }
    }
    if(b) opn2_close(b);
    opn2_close(a);
    return out;
}

int main(int argc, char **argv)
{
    g_bank = argc > 1 ? argv[1] : "/repo/fm_banks/gm.wopn";
    static const int emus[2] = {OPNMIDI_EMU_NUKED_YM2612, OPNMIDI_EMU_NUKED_YM3438};
    static const int blocks[3] = {1, 3, 64};
    for(int ea = 0; ea < 2; ++ea) for(int eb = 0; eb < 2; ++eb) for(int bl = 0; bl < 3; ++bl)
    {
        std::vector<short> ref = run(emus[ea], emus[eb], false, blocks[bl]);
        std::vector<short> rep = run(emus[ea], emus[eb], false, blocks[bl]);
        std::vector<short> dis = run(emus[ea], emus[eb], true, blocks[bl]);
        bool nonzero = false; for(size_t i = 0; i < ref.size(); ++i) if(ref[i]) nonzero = true;
        if(!nonzero) { std::printf("REPLAY-ERROR silent reference (emuA=%d)\n", emus[ea]); return 2; }
        if(ref != rep) { std::printf("REPLAY-VIOLATION not repeatable emuA=%d block=%d\n", emus[ea], blocks[bl]); return 1; }
        if(ref.size() != dis.size() || ref != dis)
        {
            size_t i = 0; while(i < ref.size() && i < dis.size() && ref[i] == dis[i]) ++i;
            std::printf("REPLAY-VIOLATION instance A (emulator %d) renders differently when another instance (emulator %d) is created and plays in between: first difference at sample %zu (block %d)\n",
                        emus[ea], emus[eb], i, blocks[bl]);
            return 1;
        }
    }
    std::printf("REPLAY-OK 12 two-instance scenarios bit-identical\n");
    return 0;
}
