// Library replay for C03 / C12: performs one real-time MIDI call with the counterexample's argument bytes on a real player
// instance built with ASan/UBSan; an out-of-bounds access is reported by the sanitizers (non-zero exit).
// usage: rt_driver <function> <channel> <a> <b> <w> [rsxx]
#include <cstdio>
#include <cstdlib>
#include <cstring>
#include <string>
#include <vector>
#include <map>
#include <set>
#include <list>
#define private public
#define protected public
#include "opnmidi_midiplay.hpp"
#include "opnmidi_opn2.hpp"
#undef private
#undef protected
#include "opnmidi.h"
int main(int argc, char **argv)
{
    if(argc < 6) return 2;
    std::string f = argv[1]; int ch = atoi(argv[2]), a = atoi(argv[3]), b = atoi(argv[4]), w = atoi(argv[5]);
    OPN2_MIDIPlayer *dev = opn2_init(44100);
    if(!dev) return 2;
    OPNMIDIplay *play = reinterpret_cast<OPNMIDIplay *>(dev->opn2_midiPlayer);
    if(argc > 6) play->m_synth->m_musicMode = OPN2::MODE_RSXX;
    // a sounding note on the channel so that note bookkeeping paths are live
    opn2_rt_noteOn(dev, 0, 60, 100); opn2_rt_noteOn(dev, 9, 40, 100);
    if(f == "realTime_Controller") opn2_rt_controllerChange(dev, ch, a, b);
    else if(f == "realTime_PatchChange") { opn2_rt_patchChange(dev, ch, a); opn2_rt_bankChangeMSB(dev, ch % 16, 0); opn2_rt_noteOn(dev, ch % 16, 60, 100); }
    else if(f == "realTime_PitchBend") opn2_rt_pitchBend(dev, ch, (OPN2_UInt16)w);
    else if(f == "realTime_PitchBend2") opn2_rt_pitchBendML(dev, ch, a, b);
    else if(f == "realTime_BankChangeLSB") opn2_rt_bankChangeLSB(dev, ch, a);
    else if(f == "realTime_BankChangeMSB") opn2_rt_bankChangeMSB(dev, ch, a);
    else if(f == "realTime_BankChange") opn2_rt_bankChange(dev, ch, (OPN2_SInt16)w);
    else if(f == "realTime_ChannelAfterTouch") opn2_rt_channelAfterTouch(dev, ch, a);
    else if(f == "realTime_NoteOff") opn2_rt_noteOff(dev, ch, a);
    else if(f == "realTime_NoteAfterTouch") opn2_rt_noteAfterTouch(dev, ch, a, b);
    else if(f == "realTime_NoteOn") opn2_rt_noteOn(dev, ch, a, b);
    else return 2;
    // controller ranges that the loudness code relies on
    int bad = 0;
    for(size_t k = 0; k < play->m_midiChannels.size(); k++)
        if(play->m_midiChannels[k].volume > 127 || play->m_midiChannels[k].expression > 127 || play->m_midiChannels[k].brightness > 127 || play->m_midiChannels[k].patch > 127)
        { printf("REPLAY-VIOLATION channel %zu holds a controller/program value above 127\n", k); bad = 1; }
    short buf[256]; opn2_generate(dev, 256, buf);
    opn2_close(dev);
    printf("replayed %s(%d,%d,%d,%d)%s\n", f.c_str(), ch, a, b, w, bad ? "" : " without a sanitizer report");
    return bad;
}
