// Library replay for C19: sends one SysEx message to a real player instance (public API) and reports whether it was
// accepted and whether any observable state changed.  Internals are read through the real headers.
#include <cstdio>
#include <cstdlib>
#include <cstring>
#include <string>
#include <vector>
#include <map>
#include <set>
#include <list>
#define private public
#define protected public
#include "opnmidi_midiplay.hpp"
#include "opnmidi_opn2.hpp"
#undef private
#undef protected
#include "opnmidi.h"
#include "sysex_spec.h"

int main(int argc, char **argv)
{
    if(argc < 3) { fprintf(stderr, "usage: devid hexbytes\n"); return 2; }
    unsigned devid = (unsigned)atoi(argv[1]);
    std::vector<uint8_t> msg;
    for(const char *p = argv[2]; p[0] && p[1]; p += 2) { unsigned v; sscanf(p, "%2x", &v); msg.push_back((uint8_t)v); }
    OPN2_MIDIPlayer *dev = opn2_init(44100);
    if(!dev) return 2;
    opn2_setDeviceIdentifier(dev, devid);
    OPNMIDIplay *play = reinterpret_cast<OPNMIDIplay *>(dev->opn2_midiPlayer);
    // make the state distinguishable from the reset state
    for(int ch = 0; ch < 16; ch++) { opn2_rt_controllerChange(dev, ch, 7, 33 + ch); opn2_rt_patchChange(dev, ch, 5); }
    play->m_synthMode = OPNMIDIplay::Mode_GM2;
    uint32_t mode0 = play->m_synthMode; uint8_t mv0 = play->m_synth->m_masterVolume;
    std::vector<uint8_t> vol0, patch0, xg0;
    for(int ch = 0; ch < 16; ch++) { vol0.push_back(play->m_midiChannels[ch].volume); patch0.push_back(play->m_midiChannels[ch].patch); xg0.push_back(play->m_midiChannels[ch].is_xg_percussion); }
    int ret = opn2_rt_systemExclusive(dev, msg.data(), msg.size());
    bool changed = play->m_synthMode != mode0 || play->m_synth->m_masterVolume != mv0;
    for(int ch = 0; ch < 16; ch++)
        changed = changed || play->m_midiChannels[ch].volume != vol0[ch] || play->m_midiChannels[ch].patch != patch0[ch] || (uint8_t)play->m_midiChannels[ch].is_xg_percussion != xg0[ch];
    sysex_kind k = msg.size() <= 64 ? spec_sysex_kind(msg.data(), msg.size(), (uint8_t)devid) : SX_NONE;
    bool strict = msg.size() <= 64 && msg.size() >= 6 && spec_sysex_strict(msg.data(), msg.size(), (uint8_t)devid);
    printf("accepted=%d state_changed=%d spec_kind=%d spec_strict=%d mode=%u\n", ret ? 1 : 0, changed ? 1 : 0, (int)k, strict ? 1 : 0, play->m_synthMode);
    int bad = 0;
    if(ret && k == SX_NONE) { printf("REPLAY-VIOLATION accepted although not well-formed/addressed/exact length\n"); bad = 1; }
    if(!ret && changed) { printf("REPLAY-VIOLATION rejected but state changed\n"); bad = 1; }
    if(!ret && strict) { printf("REPLAY-VIOLATION documented message rejected\n"); bad = 1; }
    opn2_close(dev);
    return bad ? 1 : 0;
}
