// C14 / MAME YM2612 core: creating an instance on one thread while another instance plays on another thread.
#include <opnmidi.h>
#include <pthread.h>
#include <cstdio>
#include <cstdlib>
static const char *g_bank;
static volatile int g_stop = 0;
static void *player(void *)
{
    OPN2_MIDIPlayer *a = opn2_init(44100);
    opn2_switchEmulator(a, OPNMIDI_EMU_MAME); opn2_setNumChips(a, 1); opn2_openBankFile(a, g_bank);
    opn2_rt_noteOn(a, 0, 60, 100);
    short buf[1024];
    for(int i = 0; i < 400 && !g_stop; ++i) opn2_generate(a, 1024, buf);
    opn2_close(a);
    return 0;
}
static void *creator(void *)
{
    for(int i = 0; i < 40; ++i)
    {
        OPN2_MIDIPlayer *b = opn2_init(44100);
        opn2_switchEmulator(b, OPNMIDI_EMU_MAME); opn2_setNumChips(b, 1);
        opn2_close(b);
    }
    g_stop = 1;
    return 0;
}
int main(int argc, char **argv)
{
    g_bank = argc > 1 ? argv[1] : "/repo/fm_banks/gm.wopn";
    pthread_t t1, t2;
    pthread_create(&t1, 0, player, 0);
    pthread_create(&t2, 0, creator, 0);
    pthread_join(t1, 0); pthread_join(t2, 0);
    std::printf("done\n");
    return 0;
}
